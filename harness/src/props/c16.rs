//! C16 — config inheritance is a deterministic left fold and always terminates.
//!
//! Implementation side: `ExtendsResolver::load_with_extends` on a mock `FileSystem` (graphs of up
//! to 13 files, absolute / relative / dotted references, presets, self-loops, longer cycles,
//! missing files), the merge primitives of config/merge.rs, and `FileConfigLoader` for the
//! flattening and `--no-extends` predicates.
use std::collections::BTreeMap;
use std::path::{Component, Path, PathBuf};

use indexmap::IndexSet;
use sloc_guard::SlocGuardError;
use sloc_guard::config::verif_exports::{ExtendsResolver, merge_toml_values, strip_reset_markers, validate_reset_positions};
use sloc_guard::config::{ConfigLoader, FetchPolicy, FileConfigLoader, FileSystem};
use toml::Value;

use super::Tier;
use crate::proto::{Case, Sink, enc};
use crate::rng::Rng;

#[derive(Clone, Default)]
struct MockFs {
    files: BTreeMap<PathBuf, String>,
}

fn normalize(p: &Path) -> PathBuf {
    let mut out = PathBuf::new();
    for c in p.components() {
        match c {
            Component::CurDir => {}
            Component::ParentDir => {
                out.pop();
            }
            other => out.push(other.as_os_str()),
        }
    }
    out
}

impl FileSystem for MockFs {
    fn read_to_string(&self, path: &Path) -> std::io::Result<String> {
        self.files.get(&normalize(path)).cloned().ok_or_else(|| std::io::Error::new(std::io::ErrorKind::NotFound, "missing"))
    }
    fn exists(&self, path: &Path) -> bool {
        self.files.contains_key(&normalize(path))
    }
    fn current_dir(&self) -> std::io::Result<PathBuf> {
        Ok(PathBuf::from("/p"))
    }
    fn config_dir(&self) -> Option<PathBuf> {
        None
    }
    fn canonicalize(&self, path: &Path) -> std::io::Result<PathBuf> {
        let n = normalize(path);
        if self.files.contains_key(&n) { Ok(n) } else { Err(std::io::Error::new(std::io::ErrorKind::NotFound, "missing")) }
    }
}

/// wire format of a TOML value (see lean/SlocModel/Driver/Toml.lean); tables sorted by key
pub fn enc_value(v: &Value) -> String {
    match v {
        Value::String(s) => format!("s{}", enc(s)),
        Value::Integer(i) => format!("o1:{}", enc(&i.to_string())),
        Value::Float(f) => format!("o2:{}", enc(&f.to_bits().to_string())),
        Value::Boolean(b) => format!("o3:{}", enc(&b.to_string())),
        Value::Datetime(d) => format!("o4:{}", enc(&d.to_string())),
        Value::Array(a) => format!("a[{}]", a.iter().map(enc_value).collect::<Vec<_>>().join(";")),
        Value::Table(t) => {
            let mut kv: Vec<(&String, &Value)> = t.iter().collect();
            kv.sort_by(|a, b| a.0.cmp(b.0));
            format!("t{{{}}}", kv.iter().map(|(k, v)| format!("{}={}", enc(k), enc_value(v))).collect::<Vec<_>>().join(";"))
        }
    }
}

const RESET: &str = "$reset";

fn str_array(r: &mut Rng, reset_first: bool, reset_elsewhere: bool) -> Value {
    let pool = ["rs", "py", "vendor/**", "*.gen.rs", "target/**", "go", "ts"];
    let n = r.below(4);
    let mut v: Vec<Value> = (0..n).map(|_| Value::String((*r.pick(&pool)).to_string())).collect();
    if reset_first {
        v.insert(0, Value::String(RESET.to_string()));
    }
    if reset_elsewhere && !v.is_empty() {
        let at = r.range(1, v.len());
        v.insert(at, Value::String(RESET.to_string()));
    }
    Value::Array(v)
}

fn rule_array(r: &mut Rng, key: &str, reset_first: bool, reset_elsewhere: bool) -> Value {
    let n = r.below(3);
    let mk = |r: &mut Rng, pat: &str| {
        let mut t = toml::map::Map::new();
        t.insert(key.to_string(), Value::String(pat.to_string()));
        if pat != RESET {
            if key == "pattern" {
                t.insert("max_lines".to_string(), Value::Integer(r.range(10, 900) as i64));
                if r.chance(1, 3) {
                    t.insert("warn_threshold".to_string(), Value::Float(*r.pick(&[0.5, 0.8, 0.9])));
                }
            } else {
                t.insert("max_files".to_string(), Value::Integer(r.range(1, 50) as i64));
                // arrays nested inside a rule table may carry reset markers too
                if r.chance(1, 2) {
                    let first = r.chance(1, 2);
                    let later = r.chance(1, 10);
                    let mut v: Vec<Value> = (0..r.below(3)).map(|_| Value::String((*r.pick(&[".rs", ".ts", ".md"])).to_string())).collect();
                    if first { v.insert(0, Value::String(RESET.to_string())); }
                    if later && !v.is_empty() { let at = r.range(1, v.len()); v.insert(at, Value::String(RESET.to_string())); }
                    t.insert("allow_extensions".to_string(), Value::Array(v));
                }
            }
        }
        Value::Table(t)
    };
    let mut v: Vec<Value> = (0..n).map(|_| { let p = *r.pick(&["src/**", "**/*.rs", "tests/**", "lib/*"]); mk(r, p) }).collect();
    if reset_first {
        v.insert(0, mk(r, RESET));
    }
    if reset_elsewhere && !v.is_empty() {
        let at = r.range(1, v.len());
        v.insert(at, mk(r, RESET));
    }
    Value::Array(v)
}

/// a configuration-shaped value: real section and field names, so that most members deserialize
fn config_value(r: &mut Rng, wild: bool) -> toml::map::Map<String, Value> {
    let mut top = toml::map::Map::new();
    if r.chance(1, 3) {
        top.insert("version".into(), Value::String("2".into()));
    }
    let reset = |r: &mut Rng| (r.chance(1, 4), wild && r.chance(1, 12));
    if r.chance(2, 3) {
        let mut c = toml::map::Map::new();
        if r.chance(1, 2) { c.insert("max_lines".into(), Value::Integer(r.range(50, 900) as i64)); }
        if r.chance(1, 3) { c.insert("warn_threshold".into(), Value::Float(*r.pick(&[0.5, 0.75, 0.9]))); }
        if r.chance(1, 3) { c.insert("skip_comments".into(), Value::Boolean(r.chance(1, 2))); }
        if r.chance(1, 2) { let (a, b) = reset(r); c.insert("extensions".into(), str_array(r, a, b)); }
        if r.chance(1, 3) { let (a, b) = reset(r); c.insert("exclude".into(), str_array(r, a, b)); }
        if r.chance(1, 2) { let (a, b) = reset(r); c.insert("rules".into(), rule_array(r, "pattern", a, b)); }
        top.insert("content".into(), Value::Table(c));
    }
    if r.chance(1, 2) {
        let mut s = toml::map::Map::new();
        if r.chance(1, 2) { s.insert("gitignore".into(), Value::Boolean(r.chance(1, 2))); }
        if r.chance(2, 3) { let (a, b) = reset(r); s.insert("exclude".into(), str_array(r, a, b)); }
        top.insert("scanner".into(), Value::Table(s));
    }
    if r.chance(1, 3) {
        let mut s = toml::map::Map::new();
        if r.chance(1, 2) { s.insert("max_files".into(), Value::Integer(r.range(5, 60) as i64)); }
        if r.chance(1, 2) { let (a, b) = reset(r); s.insert("rules".into(), rule_array(r, "scope", a, b)); }
        if r.chance(1, 3) { let (a, b) = reset(r); s.insert("count_exclude".into(), str_array(r, a, b)); }
        top.insert("structure".into(), Value::Table(s));
    }
    if wild && r.chance(1, 6) {
        // shapes that are not configurations: scalar vs table conflicts, nested arrays, marker as scalar
        match r.below(4) {
            0 => { top.insert("content".into(), Value::Integer(3)); }
            1 => { top.insert("misc".into(), Value::Array(vec![str_array(r, true, false), str_array(r, false, true)])); }
            2 => { top.insert("reason".into(), Value::String(RESET.into())); }
            _ => { top.insert("scanner".into(), Value::Array(vec![Value::String("x".into())])); }
        }
    }
    top
}

const FILE_NAMES: &[&str] = &[
    "/p/a.toml", "/p/b.toml", "/p/sub/c.toml", "/p/sub/deep/d.toml", "/p/e.toml", "/q/f.toml", "/p/g.toml", "/p/h.toml", "/p/i.toml",
    "/p/j.toml", "/p/k.toml", "/p/l.toml", "/p/m.toml",
];
const PRESETS: &[&str] = &["rust-strict", "node-strict", "python-strict", "go-strict", "monorepo-base"];

/// spell a reference from `from` to `to`
fn spell(r: &mut Rng, from: &str, to: &str) -> String {
    let from_dir = Path::new(from).parent().unwrap_or(Path::new("/"));
    match r.below(4) {
        0 => to.to_string(),
        1 => {
            // relative to the referrer's directory, via as many `..` as needed
            let ups = from_dir.components().count() - 1;
            format!("{}{}", "../".repeat(ups), to.trim_start_matches('/'))
        }
        2 => {
            let ups = from_dir.components().count() - 1;
            format!("./{}{}", "../".repeat(ups), to.trim_start_matches('/'))
        }
        _ => {
            // dotted absolute
            let p = Path::new(to);
            format!("{}/./{}", p.parent().unwrap().display(), p.file_name().unwrap().to_string_lossy())
        }
    }
}

struct Graph {
    fs: MockFs,
    /// canonical name -> value with `extends` rewritten to the canonical target name
    model_files: Vec<(String, Value)>,
    start: String,
    presets_used: Vec<String>,
    shape: String,
}

fn gen_graph(r: &mut Rng, wild: bool) -> Graph {
    // a chain of length len (1..=13) over distinct files, base last; then optional twists
    let len = if r.chance(1, 6) { r.range(10, 13) } else { r.range(1, 5) };
    let mut names: Vec<&str> = FILE_NAMES.to_vec();
    for i in (1..names.len()).rev() {
        names.swap(i, r.below(i + 1));
    }
    let chain: Vec<&str> = names[..len].to_vec();
    let mut fs = MockFs::default();
    let mut model_files = vec![];
    let mut presets_used = vec![];
    let twist = if wild { r.below(7) } else { r.below(3) };
    let mut shape = format!("chain{len}");
    for (i, name) in chain.iter().enumerate() {
        let mut v = config_value(r, wild);
        let mut model_v = v.clone();
        let is_base = i + 1 == len;
        let target: Option<String> = if !is_base {
            Some(chain[i + 1].to_string())
        } else {
            match twist {
                0 | 1 => None,
                2 => { let p = *r.pick(PRESETS); presets_used.push(p.to_string()); shape += "+preset"; Some(format!("preset:{p}")) }
                3 => { shape += "+cycle"; Some(chain[r.below(len)].to_string()) }
                4 => { shape += "+missing"; Some("/p/none.toml".to_string()) }
                5 => { shape += "+badpreset"; Some("preset:nope".to_string()) }
                _ => { shape += "+nonstring"; v.insert("extends".into(), Value::Integer(5)); model_v.insert("extends".into(), Value::Integer(5)); None }
            }
        };
        if let Some(t) = target {
            let spelled = if t.starts_with("preset:") { t.clone() } else { spell(r, name, &t) };
            v.insert("extends".into(), Value::String(spelled));
            model_v.insert("extends".into(), Value::String(t));
            if r.chance(1, 5) {
                v.insert("extends_sha256".into(), Value::String("00".into()));
                model_v.insert("extends_sha256".into(), Value::String("00".into()));
            }
        }
        fs.files.insert(PathBuf::from(name), toml::to_string(&Value::Table(v)).expect("serialisable"));
        model_files.push(((*name).to_string(), Value::Table(model_v)));
    }
    Graph { fs, model_files, start: chain[0].to_string(), presets_used, shape }
}

fn show_chain(chain: &[String]) -> String {
    if chain.is_empty() { "-".to_string() } else { chain.iter().map(|s| enc(s)).collect::<Vec<_>>().join(",") }
}

fn observe_resolve(g: &Graph) -> String {
    let resolver = ExtendsResolver::new(&g.fs, FetchPolicy::Offline, None);
    let mut visited = IndexSet::new();
    match resolver.load_with_extends(Path::new(&g.start), &mut visited, None, 0) {
        Ok((v, _)) => format!("ok {} visited={}", enc_value(&v), show_chain(&visited.iter().cloned().collect::<Vec<_>>())),
        Err(SlocGuardError::FileAccess { path, .. }) => format!("err file-access {}", enc(&normalize(&path).to_string_lossy())),
        Err(SlocGuardError::ExtendsTooDeep { depth, chain, .. }) => format!("err too-deep {depth} {}", show_chain(&chain)),
        Err(SlocGuardError::CircularExtends { chain }) => format!("err circular {}", show_chain(&chain)),
        Err(SlocGuardError::Config(m)) if m.contains("must be the first element") => "err reset-position".to_string(),
        Err(SlocGuardError::Config(m)) if m.contains("must be a string") => "err bad-extends".to_string(),
        Err(SlocGuardError::Config(m)) if m.contains("Unknown preset") => format!("err unknown-preset {}", enc(m.split('\'').nth(1).unwrap_or(""))),
        Err(e) => format!("err other {}", e.to_string().replace(' ', "_")),
    }
}

/// direct statement of the property on the implementation
fn oracle(g: &Graph, observed: &str) -> Option<String> {
    // independent left fold over the chain as the model files describe it (base first)
    let by_name: BTreeMap<&str, &Value> = g.model_files.iter().map(|(n, v)| (n.as_str(), v)).collect();
    let mut order: Vec<&str> = vec![];
    let mut cur = g.start.as_str();
    let mut preset: Option<String> = None;
    loop {
        if order.contains(&cur) {
            // a cycle closing exactly at the depth limit may be reported as either error
            let ok = observed.starts_with("err circular") || (order.len() >= 11 && observed.starts_with("err too-deep"));
            return if ok { None } else { Some(format!("cycle through {cur} not reported as an error naming the chain: {observed}")) };
        }
        let Some(v) = by_name.get(cur) else {
            return if observed.starts_with("err file-access") { None } else { Some(format!("missing file not reported: {observed}")) };
        };
        order.push(cur);
        if order.len() > 11 {
            return if observed.starts_with("err too-deep") { None } else { Some(format!("chain of {} files accepted or misreported: {observed}", order.len())) };
        }
        if ["extends", "extends_sha256"].iter().any(|k| v.get(k).is_some_and(|x| !x.is_str())) {
            return if observed == "err bad-extends" { None } else { Some(format!("a non-string extends was not rejected: {observed}")) };
        }
        match v.get("extends").and_then(Value::as_str) {
            Some(e) if e.starts_with("preset:") => {
                preset = Some(e["preset:".len()..].to_string());
                break;
            }
            Some(e) => cur = e,
            None => break,
        }
    }
    // fold base -> leaf
    let strip_ext = |v: &Value| {
        let mut v = v.clone();
        if let Some(t) = v.as_table_mut() {
            t.remove("extends");
            t.remove("extends_sha256");
        }
        v
    };
    let mut acc: Option<Value> = match &preset {
        Some(p) => match sloc_guard::config::presets::load_preset(p) {
            Ok(v) => Some(v),
            Err(_) => return if observed.starts_with("err unknown-preset") { None } else { Some(format!("unknown preset not reported: {observed}")) },
        },
        None => None,
    };
    for name in order.iter().rev() {
        let member = (*by_name.get(name).unwrap()).clone();
        let merged = match acc {
            Some(a) => spec_merge(a, member),
            None => member,
        };
        let merged = strip_ext(&merged);
        if spec_marker_misplaced(&merged) {
            return if observed == "err reset-position" { None } else { Some(format!("marker outside first position not rejected: {observed}")) };
        }
        acc = Some(spec_strip(merged));
    }
    let fin = acc.unwrap();
    let want = enc_value(&fin);
    if !observed.starts_with("ok ") {
        return Some(format!("expected the left fold, got {observed}"));
    }
    let got = observed.split(' ').nth(1).unwrap_or("");
    if got != want {
        return Some("effective value differs from the documented left fold".to_string());
    }
    if spec_has_marker_in_array(&fin) {
        return Some("a reset marker reached the effective configuration".to_string());
    }
    None
}

fn spec_is_marker(v: &Value) -> bool {
    match v {
        Value::String(s) => s == RESET,
        Value::Table(t) => t.get("pattern").or_else(|| t.get("scope")).and_then(Value::as_str) == Some(RESET),
        _ => false,
    }
}
fn spec_has_marker_in_array(v: &Value) -> bool {
    match v {
        Value::Array(a) => a.iter().any(|x| spec_is_marker(x) || spec_has_marker_in_array(x)),
        Value::Table(t) => t.values().any(spec_has_marker_in_array),
        _ => false,
    }
}
/// documented merge: child scalars override, tables merge recursively, arrays concatenate
/// parent-then-child unless the child array begins with `$reset`
fn spec_merge(base: Value, child: Value) -> Value {
    match (base, child) {
        (Value::Table(mut b), Value::Table(c)) => {
            for (k, cv) in c {
                let nv = match b.remove(&k) {
                    Some(bv) => spec_merge(bv, cv),
                    None => cv,
                };
                b.insert(k, nv);
            }
            Value::Table(b)
        }
        (Value::Array(b), Value::Array(c)) => {
            if c.first().is_some_and(spec_is_marker) {
                Value::Array(c[1..].to_vec())
            } else {
                Value::Array(b.into_iter().chain(c).collect())
            }
        }
        (_, c) => c,
    }
}
fn spec_marker_misplaced(v: &Value) -> bool {
    match v {
        Value::Array(a) => a.iter().enumerate().any(|(i, x)| (i > 0 && spec_is_marker(x)) || spec_marker_misplaced(x)),
        Value::Table(t) => t.values().any(spec_marker_misplaced),
        _ => false,
    }
}
fn spec_strip(v: Value) -> Value {
    match v {
        Value::Array(a) => {
            let skip = usize::from(a.first().is_some_and(spec_is_marker));
            Value::Array(a.into_iter().skip(skip).map(spec_strip).collect())
        }
        Value::Table(t) => Value::Table(t.into_iter().map(|(k, v)| (k, spec_strip(v))).collect()),
        other => other,
    }
}

fn emit_graph(sink: &mut Sink, g: &Graph) {
    if !sink.want() {
        sink.skip();
        return;
    }
    let observed = std::panic::catch_unwind(std::panic::AssertUnwindSafe(|| observe_resolve(g))).unwrap_or_else(|_| "panic".to_string());
    let mut pred = oracle(g, &observed);
    // flattening and --no-extends, through the public loader, when the chain loads as a Config
    if pred.is_none() && observed.starts_with("ok ") {
        let loader = FileConfigLoader::with_fs(g.fs.clone());
        if let Ok(chain_cfg) = loader.load_from_path(Path::new(&g.start)) {
            let resolver = ExtendsResolver::new(&g.fs, FetchPolicy::Offline, None);
            let mut visited = IndexSet::new();
            if let Ok((v, _)) = resolver.load_with_extends(Path::new(&g.start), &mut visited, None, 0) {
                let mut flat_fs = MockFs::default();
                flat_fs.files.insert(PathBuf::from("/p/flat.toml"), toml::to_string(&v).unwrap_or_default());
                match FileConfigLoader::with_fs(flat_fs).load_from_path(Path::new("/p/flat.toml")) {
                    Ok(flat_cfg) if flat_cfg.config == chain_cfg.config => {}
                    Ok(_) => pred = Some("hand-flattened file gives a different configuration than the chain".to_string()),
                    Err(e) => pred = Some(format!("hand-flattened file is rejected: {e}")),
                }
            }
        }
        // --no-extends uses the leaf alone
        if pred.is_none() {
            if let Ok(leaf) = loader.load_from_path_without_extends(Path::new(&g.start)) {
                let mut leaf_only_fs = MockFs::default();
                let mut leaf_val: Value = toml::from_str(&g.fs.files[&PathBuf::from(&g.start)]).unwrap();
                if let Some(t) = leaf_val.as_table_mut() {
                    t.remove("extends");
                    t.remove("extends_sha256");
                }
                leaf_only_fs.files.insert(PathBuf::from(&g.start), toml::to_string(&leaf_val).unwrap_or_default());
                if let Ok(alone) = FileConfigLoader::with_fs(leaf_only_fs).load_from_path(Path::new(&g.start)) {
                    let mut a = leaf.config.clone();
                    a.extends = None;
                    a.extends_sha256 = None;
                    if a != alone.config {
                        pred = Some("--no-extends result differs from the leaf alone".to_string());
                    }
                }
            }
        }
    }
    let mut req = format!("extends {} {}", enc(&g.start), g.model_files.len());
    for (n, v) in &g.model_files {
        req += &format!(" {} {}", enc(n), enc_value(v));
    }
    req += &format!(" {}", g.presets_used.len());
    for p in &g.presets_used {
        let v = sloc_guard::config::presets::load_preset(p).expect("builtin preset");
        req += &format!(" {} {}", enc(p), enc_value(&v));
    }
    let outcome = observed.split(' ').take(2).collect::<Vec<_>>().join("-");
    let outcome = if observed.starts_with("ok") { "ok".to_string() } else { outcome };
    sink.push(Case {
        request: req,
        implementation: observed,
        pred: pred.map_or_else(|| "ok".to_string(), |p| format!("FAIL {p}")),
        tag: format!("graph/{}/{}", g.shape, outcome),
    });
}

fn emit_merge(sink: &mut Sink, r: &mut Rng) {
    if !sink.want() {
        sink.skip();
        return;
    }
    let a = Value::Table(config_value(r, true));
    let b = Value::Table(config_value(r, true));
    let merged = merge_toml_values(a.clone(), b.clone());
    let pred = if merged == spec_merge(a.clone(), b.clone()) { "ok".to_string() } else { "FAIL merge differs from the documented merge".to_string() };
    sink.push(Case {
        request: format!("merge {} {}", enc_value(&a), enc_value(&b)),
        implementation: enc_value(&merged),
        pred,
        tag: "merge".to_string(),
    });
    // finish = validate + strip
    let mut m = merged.clone();
    let observed = match validate_reset_positions(&m, "") {
        Ok(()) => {
            strip_reset_markers(&mut m);
            format!("ok {}", enc_value(&m))
        }
        Err(_) => "err reset-position".to_string(),
    };
    let pred = if observed.starts_with("ok") && spec_has_marker_in_array(&m) {
        "FAIL a reset marker survives validate+strip".to_string()
    } else if observed.starts_with("err") != spec_marker_misplaced(&merged) {
        "FAIL marker position validation differs from the documented rule".to_string()
    } else {
        "ok".to_string()
    };
    sink.push(Case { request: format!("finish {}", enc_value(&merged)), implementation: observed.clone(), pred, tag: format!("finish/{}", &observed[..2]) });
}

/// `--no-extends` through the real binary: `config show` must print the leaf alone and
/// `config validate` must not touch the (here: missing) base.
fn emit_cli_no_extends(sink: &mut Sink, r: &mut Rng) {
    if !sink.want() {
        sink.skip();
        return;
    }
    let Ok(bin) = std::env::var("SGVERIF_BIN") else { return };
    let scratch = std::env::var("SGVERIF_SCRATCH").unwrap_or_else(|_| "/verif/.build/scratch/c16".to_string());
    let dir = PathBuf::from(scratch).join(format!("ne{}", sink.n));
    let _ = std::fs::remove_dir_all(&dir);
    std::fs::create_dir_all(&dir).expect("scratch");
    let mut leaf = config_value(r, false);
    let base = config_value(r, false);
    let with_base = r.chance(1, 2);
    let mut alone = leaf.clone();
    alone.remove("extends");
    leaf.insert("extends".into(), Value::String("base.toml".into()));
    std::fs::write(dir.join("leaf.toml"), toml::to_string(&Value::Table(leaf)).unwrap()).unwrap();
    std::fs::write(dir.join("alone.toml"), toml::to_string(&Value::Table(alone)).unwrap()).unwrap();
    if with_base {
        std::fs::write(dir.join("base.toml"), toml::to_string(&Value::Table(base)).unwrap()).unwrap();
    }
    let run = |args: &[&str]| {
        let o = std::process::Command::new(&bin).args(args).current_dir(&dir).output().expect("run sloc-guard");
        (o.status.code().unwrap_or(-1), String::from_utf8_lossy(&o.stdout).into_owned())
    };
    let (rc1, shown) = run(&["--no-extends", "config", "show", "-c", "leaf.toml", "--format", "json"]);
    let (rc2, expect) = run(&["config", "show", "-c", "alone.toml", "--format", "json"]);
    let (rc3, _) = run(&["--no-extends", "config", "validate", "-c", "leaf.toml"]);
    let (rc4, _) = run(&["config", "validate", "-c", "alone.toml"]);
    let strip = |s: &str| s.lines().filter(|l| !l.contains("\"extends\"")).collect::<Vec<_>>().join("\n");
    let mut pred = "ok".to_string();
    if rc1 != rc2 || strip(&shown) != strip(&expect) {
        pred = format!("FAIL `--no-extends config show` (exit {rc1}) differs from showing the leaf alone (exit {rc2})");
    } else if rc3 != rc4 {
        pred = format!("FAIL `--no-extends config validate` exits {rc3}, validating the leaf alone exits {rc4}");
    }
    // the same with a configuration that is discovered (no -c): two projects with the same
    // sources, one holding the leaf (its base one level up), one holding the leaf without `extends`
    if pred == "ok" {
        for (proj, cfg) in [("proj", "leaf.toml"), ("alone", "alone.toml")] {
            std::fs::create_dir_all(dir.join(proj).join("src")).unwrap();
            let text = std::fs::read_to_string(dir.join(cfg)).unwrap().replace("\"base.toml\"", "\"../base.toml\"");
            std::fs::write(dir.join(proj).join(".sloc-guard.toml"), text).unwrap();
            for (k, n) in [3usize, 40, 700].iter().enumerate() {
                std::fs::write(dir.join(proj).join(format!("src/f{k}.rs")), "let x = 1;\n".repeat(*n)).unwrap();
            }
        }
        let run_in = |proj: &str, args: &[&str]| {
            let o = std::process::Command::new(&bin).args(args).current_dir(dir.join(proj)).env("NO_COLOR", "1").output().expect("run sloc-guard");
            (o.status.code().unwrap_or(-1), String::from_utf8_lossy(&o.stdout).into_owned(), String::from_utf8_lossy(&o.stderr).lines().next().unwrap_or("").to_string())
        };
        for cmd in [vec!["check", "--no-sloc-cache", "--format", "json", "."], vec!["stats", "summary", "--no-sloc-cache", "--format", "json", "."], vec!["config", "show", "--format", "json"]] {
            let mut with = vec!["--no-extends"];
            with.extend(cmd.iter());
            let (rc_a, out_a, err_a) = run_in("proj", &with);
            let (rc_b, out_b, err_b) = run_in("alone", &cmd);
            if rc_a != rc_b || strip(&out_a) != strip(&out_b) {
                pred = format!("FAIL `--no-extends {}` on a discovered configuration (exit {rc_a} {err_a}) differs from the leaf alone (exit {rc_b} {err_b})", cmd.join(" "));
                break;
            }
        }
    }
    let _ = std::fs::remove_dir_all(&dir);
    sink.push(Case {
        request: "noop".to_string(),
        implementation: "-".to_string(),
        pred,
        tag: format!("cli-no-extends/{}", if with_base { "base-present" } else { "base-missing" }),
    });
}

/// A file without `extends` (or loaded with --no-extends) goes through the loader's single-file
/// path: markers first in an array are stripped, markers elsewhere are rejected — at any
/// nesting depth — and the result equals loading the hand-stripped file.
fn emit_single_file(sink: &mut Sink, r: &mut Rng) {
    if !sink.want() {
        sink.skip();
        return;
    }
    let wild = r.chance(1, 3);
    let v = Value::Table(config_value(r, wild));
    let text = toml::to_string(&v).unwrap_or_default();
    let mut fs = MockFs::default();
    fs.files.insert(PathBuf::from("/p/one.toml"), text);
    let loaded = FileConfigLoader::with_fs(fs.clone()).load_from_path(Path::new("/p/one.toml"));
    let loaded_ne = FileConfigLoader::with_fs(fs).load_from_path_without_extends(Path::new("/p/one.toml"));
    let misplaced = spec_marker_misplaced(&v);
    let mut stripped_fs = MockFs::default();
    stripped_fs.files.insert(PathBuf::from("/p/one.toml"), toml::to_string(&spec_strip(v.clone())).unwrap_or_default());
    let reference = FileConfigLoader::with_fs(stripped_fs).load_from_path(Path::new("/p/one.toml"));
    let mut pred = "ok".to_string();
    for (label, got) in [("load_from_path", &loaded), ("load_from_path_without_extends", &loaded_ne)] {
        match (got, misplaced) {
            (Ok(_), true) => pred = format!("FAIL {label}: a reset marker outside first position was accepted"),
            (Ok(c), false) => {
                let json = serde_json::to_string(&c.config).unwrap_or_default();
                if json.contains("$reset") {
                    pred = format!("FAIL {label}: a reset marker reached the effective configuration");
                } else if let Ok(refc) = &reference {
                    if refc.config != c.config {
                        pred = format!("FAIL {label}: differs from loading the hand-stripped file");
                    }
                }
            }
            (Err(e), false) => {
                // the stripped file must then be rejected as well (the value is not a configuration)
                if reference.is_ok() {
                    pred = format!("FAIL {label}: rejected ({e}) although the hand-stripped file loads");
                }
            }
            (Err(_), true) => {}
        }
    }
    let observed = match (&loaded, misplaced) {
        (Err(_), true) => "err reset-position".to_string(),
        _ => "-".to_string(),
    };
    sink.push(Case { request: format!("finish {}", enc_value(&v)), implementation: observed, pred, tag: format!("single-file/{}", if misplaced { "misplaced" } else if loaded.is_ok() { "ok" } else { "not-a-config" }) });
}

pub fn run(tier: Tier, seed: u64, out: &str) {
    let mut sink = Sink::create(out);
    let mut r = Rng::new(seed);
    for _ in 0..tier.scale(12, 200) {
        emit_cli_no_extends(&mut sink, &mut r);
    }
    let n = tier.scale(6_000, 300_000);
    for i in 0..n {
        let g = gen_graph(&mut r, i % 3 == 2);
        emit_graph(&mut sink, &g);
        if i % 2 == 0 {
            emit_merge(&mut sink, &mut r);
        }
        emit_single_file(&mut sink, &mut r);
    }
    sink.extra.insert("trivial_tag_prefixes".into(), serde_json::json!([]));
    sink.finish(out);
}
