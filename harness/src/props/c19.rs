//! C19 — diff and staged modes check exactly what git says changed.
//!
//! Small commit histories are built with the real `git` binary (adds, edits, deletions, renames,
//! mode changes, file<->directory and file<->symlink swaps, nested directories, reverts that make
//! subtrees share object ids, a side branch, lightweight and annotated tags), followed by
//! uncommitted work-tree changes and index states.  Three observation levels:
//!
//! * in-process `GitDiff::get_changed_files_range` / `get_staged_files` against the Lean model
//!   (which receives the two trees as read by `git ls-tree`) and against `git diff --raw` as oracle;
//! * in-process `parse_diff_range` against the model on random spellings;
//! * the real binary `check --diff/--staged --format json` against a full run (statuses, no
//!   foreign paths, structure results unchanged).
use std::collections::{BTreeMap, BTreeSet, HashMap};
use std::path::{Path, PathBuf};
use std::process::Command;

use sloc_guard::commands::check::verif_exports::parse_diff_range;
use sloc_guard::git::GitDiff;

use super::Tier;
use crate::proto::{Case, Sink, enc, guarded};
use crate::rng::Rng;

#[derive(Clone, PartialEq, Eq, Debug)]
enum Ent {
    File { content: String, exec: bool },
    Link { target: String },
}

type State = BTreeMap<String, Ent>;

const DIRS: &[&str] = &["src", "lib", "m.rs", "deep", "n.rs"];
// `src.rs`, `lib-x.rs`, `deep!`: names that extend a directory name with a byte below `/` — git
// orders a tree as if directory names ended in `/`, a plain string order does not
const FILES: &[&str] = &["a.rs", "b.rs", "m.rs", "n.rs", "x.rs", "real.rs", "src.rs", "lib-x.rs", "deep!.rs", "src-gen.rs"];
const LINK_TARGETS: &[&str] = &["a.rs", "real.rs", "src/a.rs", "missing.rs", "src"];

fn content(rng: &mut Rng) -> String {
    if rng.chance(1, 8) {
        // the bytes of a possible link target: a file and a link can then share an object id
        return (*rng.pick(LINK_TARGETS)).to_string();
    }
    let n = rng.range(1, 6);
    let v = rng.below(4);
    (0..n).map(|i| format!("let v{i} = {v};\n")).collect()
}

fn rand_path(rng: &mut Rng) -> String {
    let depth = rng.below(3);
    let mut p: Vec<&str> = (0..depth).map(|_| *rng.pick(DIRS)).collect();
    p.push(*rng.pick(FILES));
    p.join("/")
}

/// place an entry at `path`: whatever was a file on the way becomes a directory, whatever was
/// below `path` disappears
fn put(st: &mut State, path: &str, e: Ent) {
    let comps: Vec<&str> = path.split('/').collect();
    for i in 1..comps.len() {
        st.remove(&comps[..i].join("/"));
    }
    let below = format!("{path}/");
    st.retain(|k, _| !k.starts_with(&below));
    st.insert(path.to_string(), e);
}

fn mutate(rng: &mut Rng, st: &mut State, earlier: &[State]) -> &'static str {
    let keys: Vec<String> = st.keys().cloned().collect();
    let files: Vec<String> = keys.iter().filter(|k| matches!(st[*k], Ent::File { .. })).cloned().collect();
    let links: Vec<String> = keys.iter().filter(|k| matches!(st[*k], Ent::Link { .. })).cloned().collect();
    // a file named like a directory that stays, plus a byte below `/` (`src.rs` next to `src/`):
    // git orders tree entries as if directory names ended in `/`
    let dirs: Vec<String> = keys.iter().filter_map(|k| k.rsplit_once('/').map(|(d, _)| d.to_string())).collect::<BTreeSet<_>>().into_iter().collect();
    if !dirs.is_empty() && rng.chance(1, 7) {
        let d = rng.pick(&dirs).clone();
        let p = format!("{d}{}", rng.pick(&[".rs", "-x.rs", "!.rs", ".a.rs"]));
        if st.contains_key(&p) {
            st.remove(&p);
            return "delete-dir-sibling";
        }
        put(st, &p, Ent::File { content: content(rng), exec: false });
        return "add-dir-sibling";
    }
    if rng.chance(1, 12) {
        // a new directory holding two sub-directories with identical contents (two plug-ins copied
        // from one template): the two sub-trees are one git object under two names
        let top = format!("{}/twins{}", rng.pick(DIRS), rng.below(2));
        let (ca, cb) = (content(rng), content(rng));
        for sub in ["alpha", "beta"] {
            put(st, &format!("{top}/{sub}/mod.rs"), Ent::File { content: ca.clone(), exec: false });
            st.insert(format!("{top}/{sub}/util.rs"), Ent::File { content: cb.clone(), exec: false });
        }
        return "add-twin-subtrees";
    }
    match rng.below(12) {
        0 | 1 => {
            let p = rand_path(rng);
            put(st, &p, Ent::File { content: content(rng), exec: rng.chance(1, 5) });
            "add"
        }
        2 | 3 if !files.is_empty() => {
            let p = rng.pick(&files).clone();
            let exec = matches!(st[&p], Ent::File { exec: true, .. });
            // content and mode change in one step: one path, one range, both differences
            if rng.chance(1, 3) {
                st.insert(p, Ent::File { content: content(rng), exec: !exec });
                return "edit+chmod";
            }
            st.insert(p, Ent::File { content: content(rng), exec });
            "edit"
        }
        4 if !keys.is_empty() => {
            st.remove(rng.pick(&keys));
            "delete"
        }
        5 if !keys.is_empty() => {
            let from = rng.pick(&keys).clone();
            let e = st.remove(&from).unwrap();
            let to = rand_path(rng);
            put(st, &to, e);
            "rename"
        }
        6 if !files.is_empty() => {
            let p = rng.pick(&files).clone();
            if let Some(Ent::File { exec, .. }) = st.get_mut(&p) {
                *exec = !*exec;
            }
            "chmod"
        }
        7 if !files.is_empty() => {
            let p = rng.pick(&files).clone();
            let target = match &st[&p] {
                Ent::File { content, .. } if LINK_TARGETS.contains(&content.as_str()) && rng.chance(2, 3) => content.clone(),
                _ => (*rng.pick(LINK_TARGETS)).to_string(),
            };
            st.insert(p, Ent::Link { target });
            "file-to-link"
        }
        8 if !links.is_empty() => {
            let p = rng.pick(&links).clone();
            let c = match &st[&p] {
                Ent::Link { target } if rng.chance(1, 2) => target.clone(),
                _ => content(rng),
            };
            st.insert(p, Ent::File { content: c, exec: false });
            "link-to-file"
        }
        9 => {
            // a whole directory goes, or becomes a file
            let d = *rng.pick(DIRS);
            let below = format!("{d}/");
            let had = st.keys().any(|k| k.starts_with(&below));
            st.retain(|k, _| !k.starts_with(&below));
            if had && rng.chance(1, 2) {
                st.insert(d.to_string(), Ent::File { content: content(rng), exec: false });
                "dir-to-file"
            } else {
                "delete-dir"
            }
        }
        10 if !earlier.is_empty() => {
            // bring one top-level entry back to an earlier state: subtrees then share object ids
            let old = rng.pick(earlier).clone();
            let d = *rng.pick(DIRS);
            let below = format!("{d}/");
            st.retain(|k, _| k != d && !k.starts_with(&below));
            for (k, v) in old {
                if k == d || k.starts_with(&below) {
                    st.insert(k, v);
                }
            }
            "restore-subtree"
        }
        _ => {
            // a nested directory with two files
            let d = format!("{}/{}", rng.pick(DIRS), rng.pick(DIRS));
            put(st, &format!("{d}/a.rs"), Ent::File { content: content(rng), exec: false });
            st.insert(format!("{d}/b.rs"), Ent::File { content: content(rng), exec: false });
            "add-nested"
        }
    }
}

struct Repo {
    dir: PathBuf,
}

impl Repo {
    fn git(&self, args: &[&str]) -> (bool, Vec<u8>) {
        let o = Command::new("git")
            .args(["-c", "user.email=v@example.invalid", "-c", "user.name=v", "-c", "core.filemode=true", "-c", "commit.gpgsign=false", "-c", "core.symlinks=true", "-c", "advice.detachedHead=false"])
            .args(args)
            .current_dir(&self.dir)
            .env("GIT_CONFIG_GLOBAL", "/dev/null")
            .env("GIT_CONFIG_SYSTEM", "/dev/null")
            .env("GIT_AUTHOR_DATE", "2024-01-01T00:00:00Z")
            .env("GIT_COMMITTER_DATE", "2024-01-01T00:00:00Z")
            .output()
            .expect("git");
        (o.status.success(), o.stdout)
    }
    fn git_s(&self, args: &[&str]) -> String {
        String::from_utf8_lossy(&self.git(args).1).trim().to_string()
    }
    /// make the work tree equal to `st` (the configuration file and `.git` stay)
    fn materialise(&self, st: &State) {
        for e in std::fs::read_dir(&self.dir).unwrap().flatten() {
            let n = e.file_name();
            if n == ".git" || n == ".sloc-guard.toml" {
                continue;
            }
            let p = e.path();
            if p.symlink_metadata().is_ok_and(|m| m.is_dir()) {
                let _ = std::fs::remove_dir_all(&p);
            } else {
                let _ = std::fs::remove_file(&p);
            }
        }
        for (k, v) in st {
            self.write_entry(k, v);
        }
    }
    fn write_entry(&self, k: &str, v: &Ent) {
        use std::os::unix::fs::PermissionsExt;
        let p = self.dir.join(k);
        // clear what is in the way
        let comps: Vec<&str> = k.split('/').collect();
        for i in 1..comps.len() {
            let q = self.dir.join(comps[..i].join("/"));
            if q.symlink_metadata().is_ok_and(|m| !m.is_dir()) {
                let _ = std::fs::remove_file(&q);
            }
        }
        if let Ok(m) = p.symlink_metadata() {
            if m.is_dir() {
                let _ = std::fs::remove_dir_all(&p);
            } else {
                let _ = std::fs::remove_file(&p);
            }
        }
        std::fs::create_dir_all(p.parent().unwrap()).unwrap();
        match v {
            Ent::File { content, exec } => {
                std::fs::write(&p, content).unwrap();
                std::fs::set_permissions(&p, std::fs::Permissions::from_mode(if *exec { 0o755 } else { 0o644 })).unwrap();
            }
            Ent::Link { target } => {
                std::os::unix::fs::symlink(target, &p).unwrap();
            }
        }
    }
    fn commit(&self, msg: &str) -> String {
        self.git(&["add", "-A"]);
        self.git(&["commit", "-q", "--allow-empty", "-m", msg]);
        self.git_s(&["rev-parse", "HEAD"])
    }
}

/// interning of object ids
#[derive(Default)]
struct Ids {
    map: HashMap<String, usize>,
}
impl Ids {
    fn of(&mut self, hex: &str) -> usize {
        let n = self.map.len() + 1;
        *self.map.entry(hex.to_string()).or_insert(n)
    }
}

/// the tree of a commit as preorder tokens for the model
fn tree_tokens(repo: &Repo, rev: &str, ids: &mut Ids) -> Vec<String> {
    let (ok, out) = repo.git(&["ls-tree", "-r", "-t", "-z", "--full-tree", rev]);
    assert!(ok, "ls-tree {rev}");
    let mut toks = vec![];
    let mut stack: Vec<String> = vec![];
    for rec in out.split(|b| *b == 0).filter(|r| !r.is_empty()) {
        let rec = String::from_utf8_lossy(rec).into_owned();
        let (meta, path) = rec.split_once('\t').unwrap();
        let m: Vec<&str> = meta.split(' ').collect();
        let comps: Vec<&str> = path.split('/').collect();
        let parent = &comps[..comps.len() - 1];
        while stack.len() > parent.len() || stack.iter().zip(parent).any(|(a, b)| a != b) {
            stack.pop();
            toks.push("e".to_string());
        }
        let name = enc(comps[comps.len() - 1]);
        match m[0] {
            "100644" => toks.push(format!("b,{name},{},0", ids.of(m[2]))),
            "100755" => toks.push(format!("b,{name},{},1", ids.of(m[2]))),
            "120000" => toks.push(format!("l,{name},{}", ids.of(m[2]))),
            "160000" => toks.push(format!("c,{name},{}", ids.of(m[2]))),
            "040000" => {
                toks.push(format!("t,{name}"));
                stack.push(comps[comps.len() - 1].to_string());
            }
            other => panic!("mode {other}"),
        }
    }
    for _ in 0..stack.len() {
        toks.push("e".to_string());
    }
    toks
}

fn enc_path(p: &str) -> String {
    p.split('/').map(enc).collect::<Vec<_>>().join("/")
}

fn show_set(paths: &BTreeSet<String>) -> String {
    if paths.is_empty() {
        return "-none-".to_string();
    }
    let mut v: Vec<String> = paths.iter().map(|p| enc_path(p)).collect();
    v.sort();
    v.join(";")
}

fn is_regular_mode(m: &str) -> bool {
    m == "100644" || m == "100755"
}

/// `git diff --raw` records: (old mode, new mode, old id, new id, path)
fn raw_diff(repo: &Repo, args: &[&str]) -> Option<Vec<(String, String, String, String, String)>> {
    let mut a = vec!["diff", "--raw", "--no-renames", "--no-abbrev", "-z"];
    a.extend_from_slice(args);
    let (ok, out) = repo.git(&a);
    if !ok {
        return None;
    }
    let parts: Vec<String> = out.split(|b| *b == 0).map(|r| String::from_utf8_lossy(r).into_owned()).collect();
    let mut recs = vec![];
    let mut i = 0;
    while i + 1 < parts.len() {
        let meta = parts[i].trim_start_matches(':');
        let m: Vec<&str> = meta.split(' ').collect();
        if m.len() >= 5 {
            recs.push((m[0].to_string(), m[1].to_string(), m[2].to_string(), m[3].to_string(), parts[i + 1].clone()));
        }
        i += 2;
    }
    Some(recs)
}

/// which kinds of change git sees between two commits (coverage tag)
fn kinds_of(repo: &Repo, a: &str, b: &str) -> String {
    let mut k = BTreeSet::new();
    for (om, nm, oid, nid, path) in raw_diff(repo, &[a, b]).unwrap_or_default() {
        let r = (is_regular_mode(&om), is_regular_mode(&nm));
        k.insert(match r {
            (true, true) if oid == nid => "mode",
            (true, true) => "edit",
            (false, true) if om == "000000" => "add",
            (true, false) if nm == "000000" => {
                if on_disk_regular(repo, &path) { "del-present" } else { "del" }
            }
            (false, true) => "link-to-file",
            (true, false) => if oid == nid { "file-to-link-same-id" } else { "file-to-link" },
            (false, false) => "link-only",
        });
    }
    if k.is_empty() { "same".to_string() } else { k.into_iter().collect::<Vec<_>>().join("+") }
}

fn on_disk_regular(repo: &Repo, p: &str) -> bool {
    repo.dir.join(p).symlink_metadata().is_ok_and(|m| m.is_file())
}

/// what git says: regular files that are new or whose content differs, plus regular files that
/// are gone (or no longer regular) in the target and still present in the work tree
fn oracle_diff(repo: &Repo, a: &str, b: &str) -> Option<BTreeSet<String>> {
    let recs = raw_diff(repo, &[a, b])?;
    let mut s = BTreeSet::new();
    for (om, nm, oid, nid, path) in recs {
        if is_regular_mode(&nm) {
            if !is_regular_mode(&om) || oid != nid {
                s.insert(path);
            }
        } else if is_regular_mode(&om) && on_disk_regular(repo, &path) {
            s.insert(path);
        }
    }
    Some(s)
}

fn oracle_staged(repo: &Repo) -> Option<BTreeSet<String>> {
    let recs = raw_diff(repo, &["--cached"])?;
    let mut s = BTreeSet::new();
    for (om, nm, oid, nid, path) in recs {
        if is_regular_mode(&nm) && (!is_regular_mode(&om) || oid != nid) {
            s.insert(path);
        }
    }
    Some(s)
}

fn rel_set(repo: &Repo, set: &std::collections::HashSet<PathBuf>) -> BTreeSet<String> {
    let wd = repo.dir.canonicalize().unwrap();
    set.iter()
        .map(|p| {
            let r = p.strip_prefix(&wd).or_else(|_| p.strip_prefix(&repo.dir)).map_or_else(|_| p.clone(), Path::to_path_buf);
            r.to_string_lossy().into_owned()
        })
        .collect()
}

/// paths, statuses and structure results of a `check … --format json` run
struct RunOut {
    rc: i32,
    content: BTreeMap<String, (String, u64)>,
    structure: BTreeSet<String>,
    err: String,
}

fn run_check(repo: &Repo, bin: &str, extra: &[&str]) -> RunOut {
    let o = Command::new(bin)
        .args(["check", "--format", "json", "--no-sloc-cache"])
        .args(extra)
        .current_dir(&repo.dir)
        .env("NO_COLOR", "1")
        .env("GIT_CONFIG_GLOBAL", "/dev/null")
        .env("GIT_CONFIG_SYSTEM", "/dev/null")
        .output()
        .expect("run sloc-guard");
    let mut r = RunOut { rc: o.status.code().unwrap_or(-1), content: BTreeMap::new(), structure: BTreeSet::new(), err: String::from_utf8_lossy(&o.stderr).lines().next().unwrap_or("").to_string() };
    if let Ok(v) = serde_json::from_slice::<serde_json::Value>(&o.stdout) {
        for e in v["results"].as_array().cloned().unwrap_or_default() {
            let path = e["path"].as_str().unwrap_or("").to_string();
            let status = e["status"].as_str().unwrap_or("").to_string();
            if e["violation_category"]["category"] == "structure" {
                r.structure.insert(format!("{path}|{status}|{}|{}|{}", e["violation_category"]["violation_type"], e["sloc"], e["limit"]));
            } else {
                r.content.insert(path.trim_start_matches("./").to_string(), (status, e["sloc"].as_u64().unwrap_or(0)));
            }
        }
    } else {
        r.rc = -2;
    }
    r
}

/// end-to-end: the run restricted by `flag` against a full run
fn e2e(repo: &Repo, bin: &str, flag: &[&str], expect: &BTreeSet<String>) -> Option<String> {
    let full = run_check(repo, bin, &[]);
    let part = run_check(repo, bin, flag);
    if full.rc < 0 || full.rc == 2 || part.rc < 0 || part.rc == 2 {
        return Some(format!("run failed: full exit {} ({}), restricted exit {} ({})", full.rc, full.err, part.rc, part.err));
    }
    let want: BTreeSet<String> = expect.iter().filter(|p| full.content.contains_key(*p)).cloned().collect();
    let got: BTreeSet<String> = part.content.keys().cloned().collect();
    if let Some(p) = got.difference(&want).next() {
        return Some(format!("`check {}` reports {p}, which is outside the changed set", flag.join(" ")));
    }
    if let Some(p) = want.difference(&got).next() {
        return Some(format!("`check {}` does not evaluate the changed file {p}", flag.join(" ")));
    }
    for (p, st) in &part.content {
        if full.content.get(p) != Some(st) {
            return Some(format!("{p} is {st:?} under `{}` and {:?} in a full run", flag.join(" "), full.content.get(p)));
        }
    }
    if part.structure != full.structure {
        return Some(format!("structure results differ under `{}`: {:?} vs {:?} in a full run", flag.join(" "), part.structure, full.structure));
    }
    let failed = part.content.values().any(|s| s.0 == "failed") || part.structure.iter().any(|s| s.contains("|failed|"));
    if (part.rc == 1) != failed {
        return Some(format!("exit status {} under `{}` with failed={failed}", part.rc, flag.join(" ")));
    }
    // the same restriction started in a sub-directory of the repository: the changed files below it
    if let Some(d) = want.iter().filter_map(|p| p.split_once('/').map(|(d, _)| d.to_string())).find(|d| repo.dir.join(d).is_dir()) {
        let sub = Repo { dir: repo.dir.join(&d) };
        let mut args: Vec<&str> = vec!["--config", "../.sloc-guard.toml"];
        args.extend_from_slice(flag);
        let below = run_check(&sub, bin, &args);
        if below.rc >= 0 && below.rc != 2 {
            let want_below: BTreeSet<String> = want.iter().filter_map(|p| p.strip_prefix(&format!("{d}/")).map(str::to_string)).collect();
            let got_below: BTreeSet<String> = below.content.keys().cloned().collect();
            if got_below != want_below {
                return Some(format!("`check {}` started in {d}/ evaluates {got_below:?}; the changed files below {d}/ are {want_below:?}", flag.join(" ")));
            }
        }
    }
    None
}

struct Built {
    repo: Repo,
    /// (sha, spellings)
    commits: Vec<(String, Vec<String>)>,
    ops: Vec<&'static str>,
}

fn build(rng: &mut Rng, dir: &Path, ncommits: usize) -> Built {
    let _ = std::fs::remove_dir_all(dir);
    std::fs::create_dir_all(dir).unwrap();
    let repo = Repo { dir: dir.to_path_buf() };
    repo.git(&["init", "-q", "-b", "master", "."]);
    // the configuration is not part of the history
    let _ = std::fs::create_dir_all(dir.join(".git/info"));
    std::fs::write(dir.join(".git/info/exclude"), ".sloc-guard.toml\n").unwrap();
    std::fs::write(dir.join(".sloc-guard.toml"), "version = \"2\"\n[content]\nmax_lines = 4\nwarn_threshold = 0.7\nextensions = [\"rs\"]\n[structure]\nmax_files = 2\nmax_dirs = 2\n[[structure.rules]]\nscope = \"**\"\nsiblings = [{ match = \"a.rs\", require = \"{stem}.md\" }, { group = [\"{stem}.rs\", \"{stem}.txt\"] }]\n").unwrap();
    let mut st = State::new();
    let mut states: Vec<State> = vec![];
    let mut commits: Vec<(String, Vec<String>)> = vec![];
    let mut ops = vec![];
    let mut branched = false;
    for i in 0..ncommits {
        // once: continue from an earlier commit on a side branch
        if i >= 2 && !branched && rng.chance(1, 3) {
            let k = rng.below(i);
            repo.git(&["checkout", "-q", "-f", "-b", "side", &commits[k].0]);
            st = states[k].clone();
            branched = true;
            ops.push("branch");
        }
        for _ in 0..rng.range(1, 3) {
            ops.push(mutate(rng, &mut st, &states));
        }
        repo.materialise(&st);
        let sha = repo.commit(&format!("c{i}"));
        let mut sp = vec![sha.clone(), sha[..10].to_string()];
        if rng.chance(1, 3) {
            let t = format!("t{i}");
            repo.git(&["tag", &t]);
            sp.push(t);
        } else if rng.chance(1, 4) {
            let t = format!("ann{i}");
            repo.git(&["tag", "-a", "-m", "x", &t]);
            sp.push(t);
        }
        states.push(st.clone());
        commits.push((sha, sp));
    }
    // relative spellings of the commits on HEAD's chain, and branch names
    for k in 0..ncommits {
        let (ok, out) = repo.git(&["rev-parse", "--verify", "-q", &format!("HEAD~{k}")]);
        if !ok {
            break;
        }
        let sha = String::from_utf8_lossy(&out).trim().to_string();
        if let Some(c) = commits.iter_mut().find(|c| c.0 == sha) {
            c.1.push(if k == 0 { "HEAD".to_string() } else { format!("HEAD~{k}") });
            if k == 1 {
                c.1.push("HEAD^".to_string());
            }
        }
    }
    for br in ["master", "side"] {
        let (ok, out) = repo.git(&["rev-parse", "--verify", "-q", br]);
        if ok {
            let sha = String::from_utf8_lossy(&out).trim().to_string();
            if let Some(c) = commits.iter_mut().find(|c| c.0 == sha) {
                c.1.push(br.to_string());
            }
        }
    }
    // uncommitted work: files come back, change, turn into links
    let head_state = st.clone();
    for _ in 0..rng.below(4) {
        match rng.below(4) {
            0 if !states.is_empty() => {
                // a file of an earlier commit is present again
                let old = rng.pick(&states).clone();
                if !old.is_empty() {
                    let keys: Vec<&String> = old.keys().collect();
                    let k = (*rng.pick(&keys)).clone();
                    let comps: Vec<&str> = k.split('/').collect();
                    let blocked = (1..comps.len()).any(|i| st.contains_key(&comps[..i].join("/"))) || st.keys().any(|q| q.starts_with(&format!("{k}/")));
                    if !blocked {
                        st.insert(k.clone(), old[&k].clone());
                        repo.write_entry(&k, &old[&k]);
                        ops.push("wt-restore");
                    }
                }
            }
            1 => {
                ops.push(mutate(rng, &mut st, &states));
                repo.materialise(&st);
            }
            _ => {}
        }
    }
    let _ = head_state;
    Built { repo, commits, ops }
}

fn diff_case(sink: &mut Sink, rng: &mut Rng, b: &Built, bin: Option<&str>, with_e2e: bool) {
    let n = b.commits.len();
    let ai = rng.below(n);
    let bi = rng.below(n);
    let a_sp = rng.pick(&b.commits[ai].1).clone();
    let head_sha = b.repo.git_s(&["rev-parse", "HEAD"]);
    let b_is_head = b.commits[bi].0 == head_sha;
    let spelling = if b_is_head && rng.chance(1, 2) {
        if rng.chance(1, 2) { a_sp.clone() } else { format!("{a_sp}..") }
    } else {
        format!("{a_sp}..{}", rng.pick(&b.commits[bi].1))
    };
    if !sink.want() {
        sink.skip();
        return;
    }
    let mut ids = Ids::default();
    let bt = tree_tokens(&b.repo, &b.commits[ai].0, &mut ids);
    let tt = tree_tokens(&b.repo, &b.commits[bi].0, &mut ids);
    // regular files on disk among everything either commit names
    let mut known = BTreeSet::new();
    for sha in [&b.commits[ai].0, &b.commits[bi].0] {
        let (_, out) = b.repo.git(&["ls-tree", "-r", "-z", "--name-only", "--full-tree", sha]);
        for rec in out.split(|c| *c == 0).filter(|r| !r.is_empty()) {
            known.insert(String::from_utf8_lossy(rec).into_owned());
        }
    }
    let existing: Vec<String> = known.iter().filter(|p| on_disk_regular(&b.repo, p)).map(|p| enc_path(p)).collect();
    let request = format!("git-diff {} {} {} {} {} {}", bt.len(), bt.join(" "), tt.len(), tt.join(" "), existing.len(), existing.join(" "));
    let request = request.split_whitespace().collect::<Vec<_>>().join(" ");
    let dir = b.repo.dir.clone();
    let sp = spelling.clone();
    let got = std::panic::catch_unwind(move || {
        let range = parse_diff_range(&sp).map_err(|e| e.to_string())?;
        let gd = GitDiff::discover(&dir).map_err(|e| e.to_string())?;
        gd.get_changed_files_range(&range.base, &range.target).map_err(|e| e.to_string())
    });
    let (implementation, mut pred) = match got {
        Ok(Ok(set)) => {
            let rel = rel_set(&b.repo, &set);
            let pred = match oracle_diff(&b.repo, &b.commits[ai].0, &b.commits[bi].0) {
                Some(want) if want == rel => None,
                Some(want) => {
                    let extra: Vec<&String> = rel.difference(&want).collect();
                    let missing: Vec<&String> = want.difference(&rel).collect();
                    Some(format!("--diff {spelling}: the changed set differs from git's: not in git's {extra:?}, missing {missing:?}"))
                }
                None => Some("git diff failed".to_string()),
            };
            (format!("set={}", show_set(&rel)), pred)
        }
        Ok(Err(e)) => (format!("error"), Some(format!("--diff {spelling} fails: {e}"))),
        Err(_) => ("panic".to_string(), Some(format!("--diff {spelling} panics"))),
    };
    if pred.is_none() && with_e2e {
        if let Some(bin) = bin {
            let want = oracle_diff(&b.repo, &b.commits[ai].0, &b.commits[bi].0).unwrap_or_default();
            pred = e2e(&b.repo, bin, &["--diff", &spelling], &want);
        }
    }
    sink.push(Case {
        request,
        implementation,
        pred: pred.map_or_else(|| "ok".to_string(), |p| format!("FAIL {p}")),
        tag: format!("diff/{}/{}", if spelling.contains("..") { if spelling.ends_with("..") { "open-range" } else { "range" } } else { "single" }, kinds_of(&b.repo, &b.commits[ai].0, &b.commits[bi].0)),
    });
}

fn directed_case(sink: &mut Sink, b: &Built, bin: Option<&str>, ai: usize, bi: usize, wt: usize) {
    if !sink.want() {
        sink.skip();
        return;
    }
    let spelling = format!("{}..{}", b.commits[ai].0, b.commits[bi].0);
    let mut ids = Ids::default();
    let bt = tree_tokens(&b.repo, &b.commits[ai].0, &mut ids);
    let tt = tree_tokens(&b.repo, &b.commits[bi].0, &mut ids);
    let mut known = BTreeSet::new();
    for sha in [&b.commits[ai].0, &b.commits[bi].0] {
        let (_, out) = b.repo.git(&["ls-tree", "-r", "-z", "--name-only", "--full-tree", sha]);
        for rec in out.split(|c| *c == 0).filter(|r| !r.is_empty()) {
            known.insert(String::from_utf8_lossy(rec).into_owned());
        }
    }
    let existing: Vec<String> = known.iter().filter(|p| on_disk_regular(&b.repo, p)).map(|p| enc_path(p)).collect();
    let request = format!("git-diff {} {} {} {} {} {}", bt.len(), bt.join(" "), tt.len(), tt.join(" "), existing.len(), existing.join(" "));
    let request = request.split_whitespace().collect::<Vec<_>>().join(" ");
    let dir = b.repo.dir.clone();
    let (a, t) = (b.commits[ai].0.clone(), b.commits[bi].0.clone());
    let got = std::panic::catch_unwind(move || {
        let gd = GitDiff::discover(&dir).map_err(|e| e.to_string())?;
        gd.get_changed_files_range(&a, &t).map_err(|e| e.to_string())
    });
    let want = oracle_diff(&b.repo, &b.commits[ai].0, &b.commits[bi].0).unwrap_or_default();
    let (implementation, mut pred) = match got {
        Ok(Ok(set)) => {
            let rel = rel_set(&b.repo, &set);
            let pred = if want == rel {
                None
            } else {
                Some(format!("--diff d{ai}..d{bi} (work tree at d{wt}): not in git's {:?}, missing {:?}", rel.difference(&want).collect::<Vec<_>>(), want.difference(&rel).collect::<Vec<_>>()))
            };
            (format!("set={}", show_set(&rel)), pred)
        }
        Ok(Err(e)) => ("error".to_string(), Some(format!("--diff fails: {e}"))),
        Err(_) => ("panic".to_string(), Some("--diff panics".to_string())),
    };
    if pred.is_none() {
        if let Some(bin) = bin {
            pred = e2e(&b.repo, bin, &["--diff", &spelling], &want).map(|m| format!("(d{ai}..d{bi}, work tree at d{wt}) {m}"));
        }
    }
    sink.push(Case {
        request,
        implementation,
        pred: pred.map_or_else(|| "ok".to_string(), |p| format!("FAIL {p}")),
        tag: format!("directed/wt{wt}/{}", kinds_of(&b.repo, &b.commits[ai].0, &b.commits[bi].0)),
    });
}

fn staged_case(sink: &mut Sink, rng: &mut Rng, b: &Built, bin: Option<&str>, label: &str) {
    if !sink.want() {
        sink.skip();
        let _ = rng;
        return;
    }
    let mut ids = Ids::default();
    let has_head = b.repo.git(&["rev-parse", "--verify", "-q", "HEAD"]).0;
    let ht = if has_head { tree_tokens(&b.repo, "HEAD", &mut ids) } else { vec![] };
    let (_, out) = b.repo.git(&["ls-files", "-s", "-z"]);
    let mut idx = vec![];
    for rec in out.split(|c| *c == 0).filter(|r| !r.is_empty()) {
        let rec = String::from_utf8_lossy(rec).into_owned();
        let (meta, path) = rec.split_once('\t').unwrap();
        let m: Vec<&str> = meta.split(' ').collect();
        let kind = match m[0] {
            "100644" | "100755" => "b",
            "120000" => "l",
            _ => "c",
        };
        idx.push(format!("{},{},{kind}", enc_path(path), ids.of(m[1])));
    }
    let request = format!("git-staged {} {} {} {}", idx.len(), idx.join(" "), ht.len(), ht.join(" "));
    let request = request.split_whitespace().collect::<Vec<_>>().join(" ");
    let dir = b.repo.dir.clone();
    let got = std::panic::catch_unwind(move || {
        let gd = GitDiff::discover(&dir).map_err(|e| e.to_string())?;
        gd.get_staged_files().map_err(|e| e.to_string())
    });
    let want = oracle_staged(&b.repo);
    let (implementation, mut pred) = match got {
        Ok(Ok(set)) => {
            let rel = rel_set(&b.repo, &set);
            let pred = match &want {
                Some(w) if *w == rel => None,
                Some(w) => Some(format!("--staged: the set differs from git's: not in git's {:?}, missing {:?}", rel.difference(w).collect::<Vec<_>>(), w.difference(&rel).collect::<Vec<_>>())),
                None => Some("git diff --cached failed".to_string()),
            };
            (format!("staged={}", show_set(&rel)), pred)
        }
        Ok(Err(e)) => ("error".to_string(), Some(format!("--staged fails: {e}"))),
        Err(_) => ("panic".to_string(), Some("--staged panics".to_string())),
    };
    if pred.is_none() {
        if let (Some(bin), Some(w)) = (bin, &want) {
            pred = e2e(&b.repo, bin, &["--staged"], w);
        }
    }
    sink.push(Case { request, implementation, pred: pred.map_or_else(|| "ok".to_string(), |p| format!("FAIL {p}")), tag: format!("staged/{label}") });
}

/// random index states on top of a built repository
fn stage_ops(rng: &mut Rng, b: &Built) -> &'static str {
    let repo = &b.repo;
    let tracked: Vec<String> = repo.git_s(&["ls-files"]).lines().map(str::to_string).collect();
    match rng.below(8) {
        0 => {
            let p = rand_path(rng);
            let mut st = State::new();
            st.insert(p.clone(), Ent::File { content: content(rng), exec: false });
            // do not fight with directories in the way
            if repo.dir.join(&p).symlink_metadata().is_err() && p.split('/').count() == 1 {
                repo.write_entry(&p, &st[&p]);
                repo.git(&["add", "--", &p]);
            }
            "stage-add"
        }
        1 | 2 if !tracked.is_empty() => {
            let p = rng.pick(&tracked).clone();
            if on_disk_regular(repo, &p) {
                std::fs::write(repo.dir.join(&p), content(rng)).unwrap();
                repo.git(&["add", "--", &p]);
                if rng.chance(1, 2) {
                    // partially staged: the work tree moves on
                    std::fs::write(repo.dir.join(&p), content(rng)).unwrap();
                    return "stage-partial";
                }
            }
            "stage-edit"
        }
        3 if !tracked.is_empty() => {
            let p = rng.pick(&tracked).clone();
            repo.git(&["rm", "-q", "--cached", "--", &p]);
            "stage-rm-cached"
        }
        4 if !tracked.is_empty() => {
            let p = rng.pick(&tracked).clone();
            repo.git(&["rm", "-q", "-f", "--", &p]);
            "stage-rm"
        }
        5 if !tracked.is_empty() => {
            let p = rng.pick(&tracked).clone();
            if on_disk_regular(repo, &p) {
                use std::os::unix::fs::PermissionsExt;
                let _ = std::fs::set_permissions(repo.dir.join(&p), std::fs::Permissions::from_mode(0o755));
                repo.git(&["add", "--", &p]);
            }
            "stage-chmod"
        }
        6 if !tracked.is_empty() => {
            let p = rng.pick(&tracked).clone();
            if on_disk_regular(repo, &p) {
                let _ = std::fs::remove_file(repo.dir.join(&p));
                let _ = std::os::unix::fs::symlink(rng.pick(LINK_TARGETS), repo.dir.join(&p));
                repo.git(&["add", "--", &p]);
            }
            "stage-to-link"
        }
        _ => {
            // an edit that is not staged
            if let Some(p) = tracked.first() {
                if on_disk_regular(repo, p) {
                    std::fs::write(repo.dir.join(p), content(rng)).unwrap();
                }
            }
            "unstaged-edit"
        }
    }
}

fn range_cases(sink: &mut Sink, rng: &mut Rng, n: usize) {
    const ALPHA: &[char] = &['a', 'b', '.', '.', '.', '/', '~', '^', 'H', '1', '@', '{', '}', ' '];
    for _ in 0..n {
        let len = rng.below(9);
        let s: String = (0..len).map(|_| *rng.pick(ALPHA)).collect();
        if !sink.want() {
            sink.skip();
            continue;
        }
        let s2 = s.clone();
        let implementation = guarded(move || match parse_diff_range(&s2) {
            Ok(r) => format!("ok {} {}", enc(&r.base), enc(&r.target)),
            Err(_) => "error".to_string(),
        });
        // the documented spellings: `ref`, `base..target`, `base..`; no base is an error
        let want = if s.is_empty() {
            "error".to_string()
        } else {
            match s.split_once("..") {
                None => format!("ok {} {}", enc(&s), enc("HEAD")),
                Some(("", _)) => "error".to_string(),
                Some((a, "")) => format!("ok {} {}", enc(a), enc("HEAD")),
                Some((a, b)) => format!("ok {} {}", enc(a), enc(b)),
            }
        };
        let pred = if implementation == want { "ok".to_string() } else { format!("FAIL `--diff {s}` is parsed as {implementation}, documented {want}") };
        let tag = if s.contains("...") { "range/three-dots" } else if s.contains("..") { "range/two-dots" } else { "range/single" };
        sink.push(Case { request: format!("range {}", enc(&s)), implementation, pred, tag: tag.to_string() });
    }
}

pub fn run(tier: Tier, seed: u64, out: &str) {
    let mut sink = Sink::create(out);
    let mut rng = Rng::new(seed ^ 0xC19);
    let bin = std::env::var("SGVERIF_BIN").ok();
    let scratch = std::env::var("SGVERIF_SCRATCH").unwrap_or_else(|_| "/verif/.build/scratch/c19".to_string());
    let repos = tier.scale(30, 400);
    let mut op_hist: BTreeMap<&'static str, usize> = BTreeMap::new();
    range_cases(&mut sink, &mut rng.fork(), tier.scale(300, 5000));
    for r in 0..repos {
        let mut rr = rng.fork();
        let dir = PathBuf::from(&scratch).join(format!("r{r}"));
        // building a repository is the cost; in replay mode build only the one that is needed
        let pairs = 6;
        let stage_rounds = 3;
        let first = sink.n;
        let last = first + pairs + stage_rounds + 1;
        if sink.only.is_some_and(|k| k < first || k >= last) {
            for _ in first..last {
                sink.skip();
            }
            continue;
        }
        let ncommits = rr.range(2, 6);
        let built = build(&mut rr, &dir, ncommits);
        for o in &built.ops {
            *op_hist.entry(o).or_insert(0) += 1;
        }
        for k in 0..pairs {
            let mut cr = rr.fork();
            diff_case(&mut sink, &mut cr, &built, bin.as_deref(), k < 3);
        }
        // index states on top of the last commit: first bring the work tree back to HEAD
        built.repo.git(&["reset", "-q", "--hard", "HEAD"]);
        built.repo.git(&["clean", "-q", "-fd", "-e", ".sloc-guard.toml"]);
        staged_case(&mut sink, &mut rr.fork(), &built, bin.as_deref(), "clean");
        for _ in 0..stage_rounds {
            let mut cr = rr.fork();
            let mut label = "";
            for _ in 0..cr.range(1, 3) {
                label = stage_ops(&mut cr, &built);
                *op_hist.entry(label).or_insert(0) += 1;
            }
            staged_case(&mut sink, &mut cr, &built, bin.as_deref(), label);
        }
        if std::env::var("SGVERIF_KEEP").is_err() {
            let _ = std::fs::remove_dir_all(&dir);
        }
    }
    // a fixed history with every kind pair (file, directory, link; equal and different ids),
    // all ordered commit pairs, the work tree at each of the commits, all end-to-end
    {
        let mut rr = rng.fork();
        let dir = PathBuf::from(&scratch).join("directed");
        let total = 3 * 9;
        if sink.only.is_some_and(|k| k < sink.n || k >= sink.n + total) {
            for _ in 0..total {
                sink.skip();
            }
        } else {
            let f = |c: &str| Ent::File { content: c.to_string(), exec: false };
            let l = |t: &str| Ent::Link { target: t.to_string() };
            let body = "let a = 1;\nlet b = 2;\nlet c = 3;\nlet d = 4;\nlet e = 5;\n";
            let s0: State = [
                ("real.rs", f(body)), ("p.rs", f("real.rs")), ("l.rs", l("real.rs")), ("f.rs", f("let f = 0;\n")),
                ("m.rs/a.rs", f("let m = 0;\n")), ("n.rs", f("let n = 0;\n")), ("keep/k.rs", f("let k = 0;\n")),
            ].into_iter().map(|(k, v)| (k.to_string(), v)).collect();
            let s1: State = [
                ("real.rs", f(body)), ("p.rs", l("real.rs")), ("l.rs", f("let l = 1;\n")), ("f.rs", f("let f = 0;\n")),
                ("m.rs", f("let m = 1;\n")), ("n.rs/b.rs", f("let n = 1;\n")), ("keep/k.rs", f("let k = 0;\n")),
            ].into_iter().map(|(k, v)| (k.to_string(), v)).collect();
            let s2: State = [
                ("real.rs", f(body)), ("p.rs", l("real.rs")), ("l.rs/in.rs", f("let l = 2;\n")), ("f.rs", l("keep/k.rs")),
                ("m.rs", l("real.rs")), ("n.rs/b.rs", f("let n = 1;\n")), ("keep/k.rs", f("let k = 0;\n")),
            ].into_iter().map(|(k, v)| (k.to_string(), v)).collect();
            let mut built = build(&mut rr, &dir, 0);
            for (i, st) in [&s0, &s1, &s2].into_iter().enumerate() {
                built.repo.materialise(st);
                let sha = built.repo.commit(&format!("d{i}"));
                built.commits.push((sha.clone(), vec![sha]));
            }
            for wt in 0..3 {
                let sha = built.commits[wt].0.clone();
                built.repo.git(&["checkout", "-q", "-f", &sha]);
                built.repo.git(&["clean", "-q", "-fd", "-e", ".sloc-guard.toml"]);
                for ai in 0..3 {
                    for bi in 0..3 {
                        directed_case(&mut sink, &built, bin.as_deref(), ai, bi, wt);
                    }
                }
            }
            let _ = std::fs::remove_dir_all(&dir);
        }
    }
    // a repository without commits
    {
        let mut rr = rng.fork();
        let dir = PathBuf::from(&scratch).join("empty");
        if sink.only.is_none_or(|k| k >= sink.n) {
            let built = build(&mut rr, &dir, 0);
            staged_case(&mut sink, &mut rr.fork(), &built, bin.as_deref(), "no-commits/empty-index");
            for _ in 0..3 {
                let mut cr = rr.fork();
                let p = rand_path(&mut cr);
                built.repo.write_entry(&p, &Ent::File { content: content(&mut cr), exec: false });
                built.repo.git(&["add", "--", &p]);
                staged_case(&mut sink, &mut cr, &built, bin.as_deref(), "no-commits/adds");
            }
            let _ = std::fs::remove_dir_all(&dir);
        }
    }
    sink.extra.insert("operations".into(), serde_json::json!(op_hist));
    sink.extra.insert("trivial_tag_prefixes".into(), serde_json::json!([]));
    sink.finish(out);
}
