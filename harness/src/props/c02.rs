//! C02 — line classification agrees with lexical ground truth, incl. ignore directives.
//!
//! Programs come from `crate::grammar` with the class of each line known by construction.
//! Predicate: the implementation's per-line classes equal the labels (or the file is reported
//! ignored exactly when an ignore-file directive sits in the first ten lines).
//! A failing program that carries hazards is attributed by repair: if replacing the lines that
//! carry hazard h by their hazard-free twins makes the failure disappear, the failure has key h.
use sloc_guard::language::CommentSyntax;

use super::Tier;
use crate::counter::{Counted, builtins, count_str, enc_syntax, fmt_counted, impl_classes};
use crate::grammar::{Family, Hazard, Ignore, Line, Program, directive_in_code, ignore_file_program, program};
use crate::proto::{Case, Sink, enc};
use crate::rng::Rng;

/// `Ok(())` if the implementation classifies the program as labelled
fn holds(syn: &CommentSyntax, p: &Program, crlf: bool, final_nl: bool, expect_ignored: bool) -> Result<(), String> {
    let text = p.text(crlf, final_nl);
    match count_str(syn, &text) {
        Counted::IgnoredFile => {
            if expect_ignored { Ok(()) } else { Err("file reported as ignored without an ignore-file directive in the first 10 lines".to_string()) }
        }
        Counted::Stats(_) => {
            if expect_ignored {
                return Err("ignore-file directive in the first 10 lines was not honoured".to_string());
            }
            let got = impl_classes(syn, &text)?;
            let want = p.truth();
            if got.chars().count() == want.chars().count() && got.chars().zip(want.chars()).all(|(a, b)| b == '?' || a == b) {
                Ok(())
            } else {
                let at = got.chars().zip(want.chars()).position(|(a, b)| b != '?' && a != b).unwrap_or(0);
                Err(format!("line {} classified {} but is {} by construction (got {got}, truth {want})", at + 1, got.chars().nth(at).unwrap_or('?'), want.chars().nth(at).unwrap_or('?')))
            }
        }
        other => Err(format!("{other:?}")),
    }
}

pub fn attribute(syn: &CommentSyntax, p: &Program, crlf: bool, final_nl: bool, err: &str) -> String {
    if p.hazards.is_empty() {
        return format!("FAIL {err}");
    }
    let mut keys: Vec<&'static str> = vec![];
    for h in &p.hazards {
        if holds(syn, &p.repaired(Some(*h)), crlf, final_nl, false).is_ok() {
            keys.push(h.key());
        }
    }
    if keys.is_empty() && holds(syn, &p.repaired(None), crlf, final_nl, false).is_ok() {
        keys = p.hazards.iter().map(|h| h.key()).collect();
    }
    if keys.is_empty() {
        format!("FAIL {err}")
    } else {
        // one hazard suffices to explain the failure: report the first (stable order)
        format!("FAIL key={} {err}", keys[0])
    }
}

fn emit(sink: &mut Sink, f: &Family, p: &Program, crlf: bool, final_nl: bool, expect_ignored: bool, stream: &str) {
    if !sink.want() {
        sink.skip();
        return;
    }
    let text = p.text(crlf, final_nl);
    let pred = match holds(&f.syntax, p, crlf, final_nl, expect_ignored) {
        Ok(()) => "ok".to_string(),
        Err(e) => attribute(&f.syntax, p, crlf, final_nl, &e),
    };
    let implementation = match count_str(&f.syntax, &text) {
        Counted::Stats(s) => match impl_classes(&f.syntax, &text) {
            Ok(c) => fmt_counted(&Counted::Stats(s), &c),
            Err(_) => fmt_counted(&Counted::Stats(s), "-"),
        },
        other => fmt_counted(&other, ""),
    };
    let mut shapes = p.shapes.clone();
    shapes.sort_unstable();
    shapes.dedup();
    let hz: Vec<&str> = p.hazards.iter().map(|h| h.key()).collect();
    sink.push(Case {
        request: format!("count {} {}", enc_syntax(&f.syntax), enc(&text)),
        implementation,
        pred,
        tag: format!("{stream}/{}/{}{}", f.name, shapes.join("+"), if hz.is_empty() { String::new() } else { format!("/hz:{}", hz.join("+")) }),
    });
}

/// fixed alphabet for the exhaustive small-scope enumeration
#[derive(Clone, Copy, PartialEq, Eq, Debug)]
enum Atom {
    Blank, Code, CodeStr, LineC, CodeLineC, Block1, Block2, BlockNested, BlockLineMarker, Lua1, Lua2, LineStartBlock, Triple1,
    IgnoreNext1, IgnoreNext2, IgnoreStart, IgnoreEnd,
}

fn atoms_of(f: &Family) -> Vec<Atom> {
    let mut v = vec![Atom::Blank, Atom::Code, Atom::CodeStr];
    if !f.line_prefixes.is_empty() {
        v.extend([Atom::LineC, Atom::CodeLineC, Atom::IgnoreNext1, Atom::IgnoreNext2, Atom::IgnoreStart, Atom::IgnoreEnd]);
    }
    if !f.blocks.is_empty() {
        v.extend([Atom::Block1, Atom::Block2, Atom::BlockLineMarker]);
        if f.blocks.iter().any(|b| b.2) {
            v.push(Atom::BlockNested);
        }
    }
    if f.lua {
        v.extend([Atom::Lua1, Atom::Lua2]);
    }
    if !f.line_start_blocks.is_empty() {
        v.push(Atom::LineStartBlock);
    }
    if !f.triple.is_empty() {
        v.push(Atom::Triple1);
    }
    v
}

/// append an atom; `false` = the sequence is outside the grammar (directive inside an ignore region)
fn put(f: &Family, a: Atom, p: &mut Program, ig: &mut Ignore) -> bool {
    let pre = f.line_prefixes.first().cloned().unwrap_or_default();
    let blk = f.blocks.first().cloned().unwrap_or_default();
    let marker_soup = {
        let mut s = String::new();
        for (a, b, _) in &f.blocks {
            s += &format!("{a} {b} ");
        }
        s += &pre;
        s
    };
    let mut add = |p: &mut Program, text: String, class: char, ig: &mut Ignore| {
        let class = match ig {
            Ignore::Block => 'i',
            Ignore::Next(n) if *n > 0 => {
                *n -= 1;
                'i'
            }
            _ => class,
        };
        p.lines.push(Line::plain(text, class));
    };
    let directive = matches!(a, Atom::IgnoreNext1 | Atom::IgnoreNext2 | Atom::IgnoreStart | Atom::IgnoreEnd);
    if directive && !matches!(ig, Ignore::None) && !(a == Atom::IgnoreEnd && matches!(ig, Ignore::Block)) {
        return false;
    }
    match a {
        Atom::Blank => add(p, " ".to_string(), 'b', ig),
        Atom::Code => add(p, "x = 1;".to_string(), 'c', ig),
        Atom::CodeStr => add(p, format!("s = \"{marker_soup} \\\" sloc-guard:ignore-file\";"), 'c', ig),
        Atom::LineC => add(p, format!("{pre} note"), 'm', ig),
        Atom::CodeLineC => add(p, format!("x = 1; {pre} note"), 'c', ig),
        Atom::Block1 => add(p, format!("{}c{}", blk.0, blk.1), 'm', ig),
        Atom::Block2 => {
            add(p, format!("{} a", blk.0), 'm', ig);
            add(p, format!("x = 1; {}", blk.1), 'm', ig);
        }
        Atom::BlockLineMarker => add(p, format!("{} {pre} {}", blk.0, blk.1), 'm', ig),
        Atom::BlockNested => {
            let n = f.blocks.iter().find(|b| b.2).cloned().unwrap_or_default();
            add(p, format!("{} a {} b", n.0, n.0), 'm', ig);
            add(p, format!("c {} d", n.1), 'm', ig);
            add(p, format!("e {}", n.1), 'm', ig);
        }
        Atom::Lua1 => add(p, "--[[ c ]]".to_string(), 'm', ig),
        Atom::Lua2 => {
            add(p, "--[==[ a ]] ".to_string(), 'm', ig);
            add(p, "x = 1 ]==]".to_string(), 'm', ig);
        }
        Atom::LineStartBlock => {
            let (s, e) = f.line_start_blocks[0].clone();
            add(p, s, 'm', ig);
            add(p, "x = 1".to_string(), 'm', ig);
            add(p, e, 'm', ig);
        }
        Atom::Triple1 => add(p, format!("{}doc{}", f.triple[0], f.triple[0]), 'm', ig),
        Atom::IgnoreNext1 | Atom::IgnoreNext2 => {
            let n = if a == Atom::IgnoreNext1 { 1 } else { 2 };
            p.lines.push(Line::plain(format!("{pre} sloc-guard:ignore-next {n}"), 'm'));
            *ig = Ignore::Next(n);
        }
        Atom::IgnoreStart => {
            p.lines.push(Line::plain(format!("{pre} sloc-guard:ignore-start"), 'm'));
            *ig = Ignore::Block;
        }
        Atom::IgnoreEnd => {
            p.lines.push(Line::plain(format!("{pre} sloc-guard:ignore-end"), 'm'));
            *ig = Ignore::None;
        }
    }
    if let Ignore::Next(0) = ig {
        *ig = Ignore::None;
    }
    true
}

fn exhaustive(sink: &mut Sink, fams: &[Family], max_len: usize) {
    for f in fams {
        let atoms = atoms_of(f);
        let mut idx = vec![0usize; 0];
        // all sequences of length 1..=max_len
        for len in 1..=max_len {
            idx.clear();
            idx.resize(len, 0);
            loop {
                let mut p = Program::default();
                let mut ig = Ignore::None;
                let mut ok = true;
                for &i in &idx {
                    if !put(f, atoms[i], &mut p, &mut ig) {
                        ok = false;
                        break;
                    }
                }
                if ok {
                    p.shapes.push("atoms");
                    emit(sink, f, &p, false, true, false, &format!("exh{len}"));
                }
                if !next(&mut idx, atoms.len()) {
                    break;
                }
            }
        }
    }
}

/// odometer step; `false` when it wraps around
fn next(idx: &mut [usize], base: usize) -> bool {
    for k in (0..idx.len()).rev() {
        idx[k] += 1;
        if idx[k] < base {
            return true;
        }
        idx[k] = 0;
    }
    false
}

const ALL_HAZARDS: &[Hazard] = &[Hazard::QuoteInBlock, Hazard::OpenerInLineComment, Hazard::MultiLineTripleQuote, Hazard::TripleQuoteInString];

pub fn families() -> Vec<Family> {
    builtins().iter().map(|(n, s)| Family::of(n, s)).collect()
}

/// The classification as the user sees it: hazard-free programs with ignore directives are
/// written to files and checked by the binary, once with the default settings and once with
/// comments and blank lines counted.  The per-file statistics must be the constructed ones, and
/// the enforced count must be code (+ comment + blank when configured) and never an ignored line.
fn e2e_batch(sink: &mut Sink, r: &mut Rng, fams: &[Family], bin: &str, scratch: &str) {
    if !sink.want() {
        sink.skip();
        return;
    }
    let dir = std::path::PathBuf::from(scratch).join(format!("e{}", sink.n));
    let _ = std::fs::remove_dir_all(&dir);
    std::fs::create_dir_all(dir.join("src")).unwrap();
    let reg = sloc_guard::language::LanguageRegistry::default();
    let mut exts: Vec<String> = vec![];
    // name, code, comment, blank, ignored
    let mut expect: Vec<(String, usize, usize, usize, usize)> = vec![];
    let mut k = 0;
    while expect.len() < 30 && k < 200 {
        k += 1;
        let f = &fams[r.below(fams.len())];
        let Some(lang) = reg.all().iter().find(|l| l.name == f.name && !l.extensions.is_empty()) else { continue };
        let pieces = r.range(2, 8);
        let p = program(r, f, pieces, &[], true);
        let truth = p.truth();
        if truth.contains('?') {
            continue;
        }
        let ext = lang.extensions[0].trim_start_matches('.').to_string();
        if !exts.contains(&ext) {
            exts.push(ext.clone());
        }
        let name = format!("src/f{}.{ext}", expect.len());
        std::fs::write(dir.join(&name), p.text(false, true)).unwrap();
        let n = |c: char| truth.chars().filter(|x| *x == c).count();
        expect.push((name, n('c'), n('m'), n('b'), n('i')));
    }
    // two files whose names differ only in letter case, of the same size: all code, all comment
    if !exts.contains(&"rs".to_string()) {
        exts.push("rs".to_string());
    }
    std::fs::write(dir.join("src/Twin.rs"), "let a = 1;\nlet b = 2;\n").unwrap();
    std::fs::write(dir.join("src/twin.rs"), "// aaaaaaa\n// bbbbbbb\n").unwrap();
    expect.push(("src/Twin.rs".to_string(), 2, 0, 0, 0));
    expect.push(("src/twin.rs".to_string(), 0, 2, 0, 0));
    // old enough for the SLOC cache to keep them
    for (name, ..) in &expect {
        if let Ok(h) = std::fs::OpenOptions::new().write(true).open(dir.join(name)) {
            let _ = h.set_modified(std::time::UNIX_EPOCH + std::time::Duration::from_secs(1_600_000_000));
        }
    }
    let list = exts.iter().map(|e| format!("\"{e}\"")).collect::<Vec<_>>().join(", ");
    let mut pred: Option<String> = None;
    let mut seen_ignored = false;
    for (label, extra, args) in [
        ("defaults", "", vec![]),
        ("skip_comments = false, skip_blank = false", "skip_comments = false\nskip_blank = false\n", vec![]),
        ("--count-comments --count-blank", "", vec!["--count-comments", "--count-blank"]),
        // the same classification must come out of the SLOC cache (cold, then warm)
        ("defaults, cold cache", "", vec!["--cached"]),
        ("defaults, warm cache", "", vec!["--cached"]),
    ] {
        std::fs::write(dir.join(".sloc-guard.toml"), format!("version = \"2\"\n[scanner]\ngitignore = false\n[content]\nmax_lines = 100000\nextensions = [{list}]\n{extra}")).unwrap();
        let cached = args.contains(&"--cached");
        let mut argv = if cached { vec!["check", "--format", "json"] } else { vec!["check", "--no-sloc-cache", "--format", "json"] };
        argv.extend(args.iter().filter(|a| **a != "--cached"));
        argv.push(".");
        let o = std::process::Command::new(bin).args(&argv).current_dir(&dir).env("NO_COLOR", "1").output().expect("run sloc-guard");
        let v: serde_json::Value = serde_json::from_slice(&o.stdout).unwrap_or(serde_json::Value::Null);
        let all = !label.starts_with("defaults");
        for (name, c, m, b, i) in &expect {
            if *c + *m + *b + *i == 0 {
                continue;
            }
            seen_ignored |= *i > 0;
            let Some(res) = v.get("results").and_then(|x| x.as_array()).and_then(|a| a.iter().find(|x| x.get("path").and_then(|p| p.as_str()).is_some_and(|p| p.trim_start_matches("./") == name))) else {
                pred = pred.or(Some(format!("{name} is missing from `check` ({label})")));
                continue;
            };
            let g = |k: &str| res.get("stats").and_then(|s| s.get(k)).and_then(|x| x.as_u64()).unwrap_or(u64::MAX) as usize;
            if pred.is_none() && (g("code"), g("comment"), g("blank"), g("total")) != (*c, *m, *b, c + m + b + i) {
                pred = Some(format!("{name} ({label}): constructed code/comment/blank/total {:?}, `check` shows {:?}", (c, m, b, c + m + b + i), (g("code"), g("comment"), g("blank"), g("total"))));
            }
            let want = if all { c + m + b } else { *c };
            let sloc = res.get("sloc").and_then(|x| x.as_u64()).unwrap_or(u64::MAX) as usize;
            if pred.is_none() && sloc != want {
                pred = Some(format!("{name} ({label}): the enforced count is {sloc}, the lines that count are {want} (code {c}, comment {m}, blank {b}, ignored {i})"));
            }
        }
    }
    let _ = std::fs::remove_dir_all(&dir);
    sink.push(Case { request: "noop".into(), implementation: "-".into(), pred: pred.map_or_else(|| "ok".to_string(), |p| format!("FAIL {p}")), tag: format!("e2e/{}", if seen_ignored { "with-ignored-lines" } else { "plain" }) });
}

pub fn run(tier: Tier, seed: u64, out: &str) {
    let mut sink = Sink::create(out);
    let mut r = Rng::new(seed);
    let fams = families();
    if tier != Tier::Search {
        exhaustive(&mut sink, &fams, if tier == Tier::Thorough { 4 } else { 3 });
    }
    let n = tier.scale(30_000, 1_000_000);
    for i in 0..n {
        let f = &fams[r.below(fams.len())];
        let crlf = r.chance(1, 5);
        let final_nl = r.chance(3, 4);
        match i % 10 {
            // hazard-free programs: any failure is a violation nobody has listed
            0..=4 => {
                let k = r.range(1, 9);
                let p = program(&mut r, f, k, &[], i % 2 == 0);
                emit(&mut sink, f, &p, crlf, final_nl, false, "clean");
            }
            // one hazard kind at a time
            5..=7 => {
                let h = ALL_HAZARDS[r.below(ALL_HAZARDS.len())];
                let k = r.range(1, 7);
                let p = program(&mut r, f, k, &[h], false);
                emit(&mut sink, f, &p, crlf, final_nl, false, "hazard1");
            }
            8 => {
                let k = r.range(1, 7);
                let p = program(&mut r, f, k, ALL_HAZARDS, i % 4 == 0);
                emit(&mut sink, f, &p, crlf, final_nl, false, "hazards");
            }
            _ => {
                if r.chance(1, 2) {
                    let p = directive_in_code(&mut r, f);
                    emit(&mut sink, f, &p, crlf, final_nl, false, "directive-in-code");
                } else if let Some((p, ignored)) = ignore_file_program(&mut r, f) {
                    emit(&mut sink, f, &p, crlf, final_nl, ignored, "ignore-file");
                }
            }
        }
    }
    // the grammar of the theorem `classify_render`: structure to the model, text to the counter
    let mut clangs: Vec<(String, CommentSyntax)> =
        builtins().into_iter().filter(|(_, s)| enc_syntax(s) == enc_syntax(&crate::cgrammar::c_family())).collect();
    if clangs.is_empty() {
        clangs.push(("user-defined C family".to_string(), crate::cgrammar::c_family()));
    }
    for _ in 0..tier.scale(8_000, 300_000) {
        crate::cgrammar::emit(&mut sink, &mut r, &clangs);
    }
    if let Ok(bin) = std::env::var("SGVERIF_BIN") {
        let scratch = std::env::var("SGVERIF_SCRATCH").unwrap_or_else(|_| "/verif/.build/scratch/c02".to_string());
        for _ in 0..tier.scale(4, 60) {
            let mut rr = r.fork();
            e2e_batch(&mut sink, &mut rr, &fams, &bin, &scratch);
        }
    }
    sink.extra.insert("trivial_tag_prefixes".into(), serde_json::json!([]));
    sink.finish(out);
}
