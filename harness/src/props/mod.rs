pub mod baseline_hist;
pub mod c01;
pub mod c02;
pub mod c03;
pub mod c04;
pub mod c05;
pub mod c06;
pub mod c07;
pub mod c08;
pub mod c12;
pub mod c13;
pub mod c14;
pub mod c15;
pub mod c16;
pub mod c17;
pub mod c18;
pub mod c19;
pub mod c20;

#[derive(Clone, Copy, PartialEq, Eq, Debug)]
pub enum Tier {
    Quick,
    Thorough,
    /// property-predicate-only search at a multiple of the tier budget (started when a proof
    /// obligation or the correspondence breaks)
    Search,
}

impl Tier {
    pub fn parse(s: &str) -> Option<Self> {
        match s {
            "quick" => Some(Self::Quick),
            "thorough" => Some(Self::Thorough),
            "search" => Some(Self::Search),
            _ => None,
        }
    }
    /// budget multiplier
    pub fn scale(self, quick: usize, thorough: usize) -> usize {
        match self {
            Self::Quick => quick,
            Self::Thorough => thorough,
            Self::Search => quick * 10,
        }
    }
}

pub fn run(prop: &str, tier: Tier, seed: u64, out: &str) -> bool {
    match prop {
        "C01" => c01::run(tier, seed, out),
        "C02" => c02::run(tier, seed, out),
        "C03" => c03::run(tier, seed, out),
        "C04" => c04::run(tier, seed, out),
        "C05" => c05::run(tier, seed, out),
        "C06" => c06::run(tier, seed, out),
        "C07" => c07::run(tier, seed, out),
        "C08" => c08::run(tier, seed, out),
        "C09" => baseline_hist::run(baseline_hist::Which::C09, tier, seed, out),
        "C10" => baseline_hist::run(baseline_hist::Which::C10, tier, seed, out),
        "C11" => baseline_hist::run(baseline_hist::Which::C11, tier, seed, out),
        "C12" => c12::run(tier, seed, out),
        "C13" => c13::run(tier, seed, out),
        "C14" => c14::run(tier, seed, out),
        "C15" => c15::run(tier, seed, out),
        "C16" => c16::run(tier, seed, out),
        "C17" => c17::run(tier, seed, out),
        "C18" => c18::run(tier, seed, out),
        "C19" => c19::run(tier, seed, out),
        "C20" => c20::run(tier, seed, out),
        _ => return false,
    }
    true
}
