//! C17 — configuration gate: invalid settings exit 2, never enforced, never a crash.
//!
//! Configurations are generated as TOML documents (valid bases with field-level mutations:
//! boundary and out-of-range numbers, NaN / infinities, malformed dates, durations, globs and
//! regexes, conflicting lists, malformed sibling rules), parsed with the tool's own serde model to
//! obtain the request for the Lean model (pattern bits come from `globset` / `regex`), and handed to
//! the real binary: `check` (with and without numeric flags), `config validate`, `config show`,
//! `stats summary`.  A second stream mutates at the TOML level (wrong types, huge integers,
//! unknown versions); a third covers the built-in presets and `init`.
use std::path::{Path, PathBuf};
use std::process::{Command, Stdio};
use std::time::{Duration, Instant};

use sloc_guard::config::{Config, SiblingRule, StructureRule};
use toml::Value;
use toml::value::Table;

use super::Tier;
use crate::proto::{Case, Sink, enc};
use crate::rng::Rng;

// ------------------------------------------------------------------ value pools

const THRESHOLDS: &[f64] = &[0.0, 0.5, 0.8, 1.0, -0.0, 1.000_000_000_000_000_2, 7.5, -3.5, f64::NAN, f64::INFINITY, f64::NEG_INFINITY, 1e308, 5e-324, -1e-300];
const GOOD_THRESHOLDS: &[f64] = &[0.0, 0.5, 0.8, 0.9, 1.0];
const DATES: &[&str] = &["2030-01-01", "2024-12-31", "2025-1-1", "junk", "2025-13-01", "2025-02-31", "2025-01-32", "2025-00-10", "", "2025-01-01-", "70000-01-01", "+2025-01-01", "2025--01", "2025-01", " 2025-01-01", "2025-01-01 ", "2025-02-30", "2025-04-31", "2023-02-29", "2024-02-29", "2100-02-29", "2000-02-29", "2025-06-30", "2025-11-31"];
const DURATIONS: &[&str] = &["7d", "1w", "12h", "30m", "45s", "7x", "", "0d", "d", "99999999999999999999d", "99999999999999999w", " 7d ", "7 d", "1D"];
const SECTIONS: &[&str] = &["summary", "Files", "breakdown", "trend", "bogus", ""];
const BREAKDOWNS: &[&str] = &["lang", "LANGUAGE", "dir", "directory", "x", ""];
const LIMITS: &[i64] = &[-5, -2, -1, 0, 1, 3, 10, 50];

fn fval(x: f64) -> Value {
    Value::Float(x)
}
fn strs(xs: &[&str]) -> Value {
    Value::Array(xs.iter().map(|s| Value::String((*s).to_string())).collect())
}

// ------------------------------------------------------------------ generator

/// a configuration inside the domain
fn base(rng: &mut Rng) -> Table {
    let mut t = Table::new();
    t.insert("version".into(), Value::String("2".into()));
    let mut content = Table::new();
    let max_lines = *rng.pick(&[10i64, 100, 600]);
    content.insert("max_lines".into(), Value::Integer(max_lines));
    content.insert("extensions".into(), strs(&["rs"]));
    if rng.chance(1, 2) {
        content.insert("warn_threshold".into(), fval(*rng.pick(GOOD_THRESHOLDS)));
    }
    if rng.chance(1, 3) {
        content.insert("warn_at".into(), Value::Integer(max_lines - 1 - rng.below(5) as i64));
    }
    if rng.chance(1, 3) {
        content.insert("exclude".into(), strs(&["**/gen/**"]));
    }
    let mut rules = vec![];
    for _ in 0..rng.below(3) {
        let mut r = Table::new();
        r.insert("pattern".into(), Value::String((*rng.pick(&["**/*_test.rs", "src/**", "*.rs"])).to_string()));
        // above any inherited warn_at
        let ml = max_lines + rng.below(50) as i64;
        r.insert("max_lines".into(), Value::Integer(ml));
        match rng.below(4) {
            0 => {
                r.insert("warn_threshold".into(), fval(*rng.pick(GOOD_THRESHOLDS)));
            }
            1 => {
                r.insert("warn_at".into(), Value::Integer(ml - 1));
            }
            _ => {}
        }
        if rng.chance(1, 3) {
            r.insert("expires".into(), Value::String("2031-06-30".into()));
        }
        rules.push(Value::Table(r));
    }
    if !rules.is_empty() {
        content.insert("rules".into(), Value::Array(rules));
    }
    t.insert("content".into(), Value::Table(content));
    if rng.chance(1, 3) {
        let mut sc = Table::new();
        sc.insert("exclude".into(), strs(&["target/**"]));
        t.insert("scanner".into(), Value::Table(sc));
    }
    if rng.chance(1, 3) {
        let mut rep = Table::new();
        if rng.chance(1, 2) {
            rep.insert("exclude".into(), strs(&["trend"]));
        }
        if rng.chance(1, 2) {
            rep.insert("breakdown_by".into(), Value::String("dir".into()));
        }
        if rng.chance(1, 2) {
            rep.insert("trend_since".into(), Value::String("7d".into()));
        }
        let mut st = Table::new();
        st.insert("report".into(), Value::Table(rep));
        t.insert("stats".into(), Value::Table(st));
    }
    if rng.chance(3, 4) {
        let mut s = Table::new();
        let mf = *rng.pick(&[10i64, 30, 50]);
        if rng.chance(2, 3) {
            s.insert("max_files".into(), Value::Integer(mf));
        }
        if rng.chance(1, 2) {
            s.insert("max_dirs".into(), Value::Integer(10));
        }
        if rng.chance(1, 3) {
            s.insert("max_depth".into(), Value::Integer(*rng.pick(&[-1i64, 5])));
        }
        if rng.chance(1, 3) {
            s.insert("warn_threshold".into(), fval(*rng.pick(GOOD_THRESHOLDS)));
        }
        if rng.chance(1, 3) {
            s.insert("warn_files_at".into(), Value::Integer(5));
        }
        // (drawn from a fork so that the stream of the other choices is what it was)
        if rng.fork().chance(1, 3) && s.contains_key("max_dirs") {
            s.insert("warn_dirs_at".into(), Value::Integer(4));
        }
        match rng.below(4) {
            0 => {
                s.insert("deny_patterns".into(), strs(&["*.bak"]));
            }
            1 => {
                s.insert("allow_extensions".into(), strs(&[".rs", ".toml"]));
            }
            _ => {}
        }
        if rng.chance(1, 4) {
            s.insert("count_exclude".into(), strs(&["*.md"]));
        }
        let mut rules = vec![];
        for _ in 0..rng.below(3) {
            let mut r = Table::new();
            r.insert("scope".into(), Value::String((*rng.pick(&["src", "src/**", "tests/*"])).to_string()));
            // limits above every inherited warn point
            if rng.chance(2, 3) {
                r.insert("max_files".into(), Value::Integer(*rng.pick(&[20i64, 60, -1])));
            }
            if rng.chance(1, 3) {
                r.insert("max_dirs".into(), Value::Integer(20));
            }
            if rng.chance(1, 4) {
                r.insert("warn_files_threshold".into(), fval(*rng.pick(GOOD_THRESHOLDS)));
            }
            match rng.below(5) {
                0 => {
                    r.insert("deny_files".into(), strs(&["secrets.*"]));
                }
                1 => {
                    r.insert("allow_extensions".into(), strs(&[".rs"]));
                }
                2 => {
                    r.insert("file_naming_pattern".into(), Value::String("^[a-z_0-9]+\\.rs$".into()));
                }
                _ => {}
            }
            if rng.chance(1, 3) {
                let mut sibs = vec![];
                let mut d = Table::new();
                d.insert("match".into(), Value::String("*.rs".into()));
                d.insert("require".into(), if rng.chance(1, 2) { Value::String("{stem}_test.rs".into()) } else { strs(&["{stem}_test.rs", "{stem}.md"]) });
                sibs.push(Value::Table(d));
                if rng.chance(1, 2) {
                    let mut g = Table::new();
                    g.insert("group".into(), strs(&["{stem}.c", "{stem}.h"]));
                    sibs.push(Value::Table(g));
                }
                r.insert("siblings".into(), Value::Array(sibs));
            }
            if rng.chance(1, 4) {
                r.insert("expires".into(), Value::String("2031-01-01".into()));
            }
            rules.push(Value::Table(r));
        }
        if !rules.is_empty() {
            s.insert("rules".into(), Value::Array(rules));
        }
        t.insert("structure".into(), Value::Table(s));
    }
    t
}

fn sub<'a>(t: &'a mut Table, path: &[&str]) -> &'a mut Table {
    let mut cur = t;
    for k in path {
        cur = cur.entry((*k).to_string()).or_insert_with(|| Value::Table(Table::new())).as_table_mut().expect("table");
    }
    cur
}

/// first element of an array of tables, created if absent
fn rule0<'a>(t: &'a mut Table, path: &[&str], seed: &[(&str, Value)]) -> &'a mut Table {
    let parent = sub(t, &path[..path.len() - 1]);
    let arr = parent.entry(path[path.len() - 1].to_string()).or_insert_with(|| Value::Array(vec![]));
    let a = arr.as_array_mut().expect("array");
    if a.is_empty() {
        let mut r = Table::new();
        for (k, v) in seed {
            r.insert((*k).to_string(), v.clone());
        }
        a.push(Value::Table(r));
    }
    a[0].as_table_mut().expect("rule table")
}

const MUTATIONS: usize = 34;

/// one field-level mutation; returns its label
fn mutate(rng: &mut Rng, t: &mut Table, which: usize) -> &'static str {
    let crule = [("pattern", Value::String("**/*.rs".into())), ("max_lines", Value::Integer(700))];
    let srule = [("scope", Value::String("src".into()))];
    match which {
        0 => {
            sub(t, &["content"]).insert("warn_threshold".into(), fval(*rng.pick(THRESHOLDS)));
            "content.warn_threshold"
        }
        1 => {
            let ml = sub(t, &["content"]).get("max_lines").and_then(Value::as_integer).unwrap_or(600);
            sub(t, &["content"]).insert("warn_at".into(), Value::Integer(*rng.pick(&[0, ml - 1, ml, ml + 1, 1 << 40])));
            "content.warn_at"
        }
        2 => {
            rule0(t, &["content", "rules"], &crule).insert("warn_threshold".into(), fval(*rng.pick(THRESHOLDS)));
            "content.rules.warn_threshold"
        }
        3 => {
            let r = rule0(t, &["content", "rules"], &crule);
            let ml = r.get("max_lines").and_then(Value::as_integer).unwrap_or(700);
            r.insert("warn_at".into(), Value::Integer(*rng.pick(&[0, ml - 1, ml, ml + 1])));
            "content.rules.warn_at"
        }
        4 => {
            // a rule limit at or below the inherited absolute warn point
            let ml = sub(t, &["content"]).get("max_lines").and_then(Value::as_integer).unwrap_or(600);
            let w = ml - 1;
            sub(t, &["content"]).insert("warn_at".into(), Value::Integer(w));
            let r = rule0(t, &["content", "rules"], &crule);
            r.remove("warn_at");
            if rng.chance(1, 4) {
                r.insert("warn_threshold".into(), fval(0.5));
            } else {
                r.remove("warn_threshold");
            }
            r.insert("max_lines".into(), Value::Integer(*rng.pick(&[w - 1, w, w + 1])));
            "content.rules.inherited_warn_at"
        }
        5 => {
            rule0(t, &["content", "rules"], &crule).insert("expires".into(), Value::String((*rng.pick(DATES)).to_string()));
            "content.rules.expires"
        }
        6 => {
            rule0(t, &["content", "rules"], &crule).insert("pattern".into(), Value::String((*rng.pick(&["[rp", "src/{a,b", "**/*.rs"])).to_string()));
            "content.rules.pattern"
        }
        7 => {
            sub(t, &["scanner"]).insert("exclude".into(), strs(&["ok/**", *rng.pick(&["[se", "{se", "fine/*"])]));
            "scanner.exclude"
        }
        8 => {
            sub(t, &["content"]).insert("exclude".into(), strs(&[*rng.pick(&["[ce", "{ce", "fine/*"])]));
            "content.exclude"
        }
        9 => {
            sub(t, &["stats", "report"]).insert("exclude".into(), strs(&[*rng.pick(SECTIONS), *rng.pick(SECTIONS)]));
            "stats.report.exclude"
        }
        10 => {
            sub(t, &["stats", "report"]).insert("breakdown_by".into(), Value::String((*rng.pick(BREAKDOWNS)).to_string()));
            "stats.report.breakdown_by"
        }
        11 => {
            sub(t, &["stats", "report"]).insert("trend_since".into(), Value::String((*rng.pick(DURATIONS)).to_string()));
            "stats.report.trend_since"
        }
        12 => {
            let k = *rng.pick(&["warn_threshold", "warn_files_threshold", "warn_dirs_threshold"]);
            sub(t, &["structure"]).insert(k.into(), fval(*rng.pick(THRESHOLDS)));
            "structure.warn_*threshold"
        }
        13 => {
            let k = *rng.pick(&["max_files", "max_dirs", "max_depth"]);
            sub(t, &["structure"]).insert(k.into(), Value::Integer(*rng.pick(LIMITS)));
            "structure.max_*"
        }
        14 => {
            let (w, m) = *rng.pick(&[("warn_files_at", "max_files"), ("warn_dirs_at", "max_dirs")]);
            let lim = sub(t, &["structure"]).get(m).and_then(Value::as_integer).unwrap_or(10);
            sub(t, &["structure"]).insert(m.into(), Value::Integer(lim));
            sub(t, &["structure"]).insert(w.into(), Value::Integer(*rng.pick(&[-1, 0, lim - 1, lim, lim + 1])));
            "structure.warn_*_at"
        }
        15 => {
            let s = sub(t, &["structure"]);
            s.insert("allow_extensions".into(), strs(&[".rs"]));
            s.insert((*rng.pick(&["deny_files", "deny_extensions", "deny_patterns", "deny_dirs"])).into(), strs(&["x"]));
            "structure.allow+deny"
        }
        16 => {
            sub(t, &["structure"]).insert("deny_patterns".into(), strs(&[*rng.pick(&["[dp", "*.bak", "tmp/"])]));
            "structure.deny_patterns"
        }
        17 => {
            sub(t, &["structure"]).insert("count_exclude".into(), strs(&[*rng.pick(&["[cx", "*.md"])]));
            "structure.count_exclude"
        }
        18 => {
            let k = *rng.pick(&["warn_threshold", "warn_files_threshold", "warn_dirs_threshold"]);
            rule0(t, &["structure", "rules"], &srule).insert(k.into(), fval(*rng.pick(THRESHOLDS)));
            "structure.rules.warn_*threshold"
        }
        19 => {
            let k = *rng.pick(&["max_files", "max_dirs", "max_depth"]);
            rule0(t, &["structure", "rules"], &srule).insert(k.into(), Value::Integer(*rng.pick(LIMITS)));
            "structure.rules.max_*"
        }
        20 => {
            let (w, m) = *rng.pick(&[("warn_files_at", "max_files"), ("warn_dirs_at", "max_dirs")]);
            let r = rule0(t, &["structure", "rules"], &srule);
            let lim = r.get(m).and_then(Value::as_integer).filter(|x| *x >= 0).unwrap_or(12);
            r.insert(m.into(), Value::Integer(lim));
            r.insert(w.into(), Value::Integer(*rng.pick(&[-1, 0, lim - 1, lim, lim + 1])));
            "structure.rules.warn_*_at"
        }
        21 => {
            // the rule inherits one half of the pair from [structure]
            let (w, m) = *rng.pick(&[("warn_files_at", "max_files"), ("warn_dirs_at", "max_dirs")]);
            if rng.chance(1, 2) {
                sub(t, &["structure"]).insert(m.into(), Value::Integer(10));
                sub(t, &["structure"]).remove(w);
                let r = rule0(t, &["structure", "rules"], &srule);
                r.remove(m);
                r.insert(w.into(), Value::Integer(*rng.pick(&[9, 10, 50])));
            } else {
                sub(t, &["structure"]).insert(w.into(), Value::Integer(5));
                sub(t, &["structure"]).insert(m.into(), Value::Integer(10));
                let r = rule0(t, &["structure", "rules"], &srule);
                r.remove(w);
                r.insert(m.into(), Value::Integer(*rng.pick(&[3, 5, 6, -1])));
            }
            "structure.rules.inherited"
        }
        22 => {
            rule0(t, &["structure", "rules"], &srule).insert("expires".into(), Value::String((*rng.pick(DATES)).to_string()));
            "structure.rules.expires"
        }
        23 => {
            rule0(t, &["structure", "rules"], &srule).insert("scope".into(), Value::String((*rng.pick(&["[sc", "src/**"])).to_string()));
            "structure.rules.scope"
        }
        24 => {
            let r = rule0(t, &["structure", "rules"], &srule);
            r.insert("allow_extensions".into(), strs(&[".rs"]));
            r.insert((*rng.pick(&["deny_files", "deny_extensions", "deny_patterns", "deny_dirs"])).into(), strs(&["x"]));
            "structure.rules.allow+deny"
        }
        25 => {
            rule0(t, &["structure", "rules"], &srule).insert("file_naming_pattern".into(), Value::String((*rng.pick(&["([", "*a", "^[a-z]+$"])).to_string()));
            "structure.rules.file_naming_pattern"
        }
        26 => {
            rule0(t, &["structure", "rules"], &srule).insert("deny_patterns".into(), strs(&[*rng.pick(&["[dp", "*.tmp"])]));
            "structure.rules.deny_patterns"
        }
        27 => {
            let mut d = Table::new();
            d.insert("match".into(), Value::String((*rng.pick(&["*.rs", "", "[sm"])).to_string()));
            d.insert("require".into(), match rng.below(5) {
                0 => Value::String("nostem.rs".into()),
                1 => Value::String(String::new()),
                2 => Value::Array(vec![]),
                3 => strs(&["{stem}.md", ""]),
                _ => Value::String("{stem}.md".into()),
            });
            rule0(t, &["structure", "rules"], &srule).insert("siblings".into(), Value::Array(vec![Value::Table(d)]));
            "structure.rules.siblings.directed"
        }
        28 => {
            let mut g = Table::new();
            g.insert("group".into(), match rng.below(5) {
                0 => strs(&["{stem}.c"]),
                1 => strs(&["{stem}.c", "plain.h"]),
                2 => strs(&["{stem}.c", ""]),
                3 => Value::Array(vec![]),
                _ => strs(&["{stem}.c", "{stem}.h", "{stem}.o"]),
            });
            let mut ok = Table::new();
            ok.insert("group".into(), strs(&["{stem}.a", "{stem}.b"]));
            let sibs = if rng.chance(1, 2) { vec![Value::Table(ok), Value::Table(g)] } else { vec![Value::Table(g)] };
            rule0(t, &["structure", "rules"], &srule).insert("siblings".into(), Value::Array(sibs));
            "structure.rules.siblings.group"
        }
        29 => {
            // a second content rule so that indices above 0 are named
            let parent = sub(t, &["content"]);
            let arr = parent.entry("rules".to_string()).or_insert_with(|| Value::Array(vec![]));
            let mut r = Table::new();
            r.insert("pattern".into(), Value::String("**/x/*.rs".into()));
            r.insert("max_lines".into(), Value::Integer(900));
            r.insert("warn_threshold".into(), fval(*rng.pick(THRESHOLDS)));
            arr.as_array_mut().unwrap().push(Value::Table(r));
            "content.rules[last].warn_threshold"
        }
        30 => {
            let parent = sub(t, &["structure"]);
            let arr = parent.entry("rules".to_string()).or_insert_with(|| Value::Array(vec![]));
            let mut r = Table::new();
            r.insert("scope".into(), Value::String("lib".into()));
            r.insert("max_depth".into(), Value::Integer(*rng.pick(LIMITS)));
            arr.as_array_mut().unwrap().push(Value::Table(r));
            "structure.rules[last].max_depth"
        }
        31 => {
            sub(t, &["content"]).insert("max_lines".into(), Value::Integer(*rng.pick(&[0, 1, 5])));
            "content.max_lines small"
        }
        32 => {
            // global limit below the rule-inherited warn point, rule limit unset
            sub(t, &["structure"]).insert("max_files".into(), Value::Integer(*rng.pick(&[-1, 0, 4, 100])));
            rule0(t, &["structure", "rules"], &srule).insert("warn_files_at".into(), Value::Integer(*rng.pick(&[0, 4, 99])));
            "structure.max_files vs rule warn"
        }
        _ => "none",
    }
}

// ------------------------------------------------------------------ request for the model

fn bit(x: bool) -> &'static str {
    if x { "1" } else { "0" }
}
fn glob_ok(p: &str) -> bool {
    crate::globfact::is_valid(p)
}
fn of64(x: Option<f64>) -> String {
    x.map_or_else(|| "-".to_string(), |v| v.to_bits().to_string())
}
fn oint<T: std::fmt::Display>(x: Option<T>) -> String {
    x.map_or_else(|| "-".to_string(), |v| v.to_string())
}
fn ostr(x: Option<&String>) -> String {
    x.map_or_else(|| "-".to_string(), |v| enc(v))
}

fn rule_has_allow(r: &StructureRule) -> bool {
    !r.allow_files.is_empty() || !r.allow_dirs.is_empty() || !r.allow_extensions.is_empty() || !r.allow_patterns.is_empty()
}
fn rule_has_deny(r: &StructureRule) -> bool {
    !r.deny_files.is_empty() || !r.deny_dirs.is_empty() || !r.deny_extensions.is_empty() || !r.deny_patterns.is_empty()
}

fn rule_patterns_ok(r: &StructureRule) -> bool {
    let globs = r.allow_patterns.iter().chain(&r.allow_files).chain(&r.allow_dirs).chain(&r.deny_patterns).chain(&r.deny_files).chain(&r.deny_dirs);
    let sib_ok = r.siblings.iter().all(|s| match s {
        SiblingRule::Directed { match_pattern, .. } => glob_ok(match_pattern),
        SiblingRule::Group { .. } => true,
    });
    globs.into_iter().all(|p| glob_ok(p)) && sib_ok && r.file_naming_pattern.as_ref().is_none_or(|p| regex::Regex::new(p).is_ok())
}

const VALID_SECTIONS: &[&str] = &["summary", "files", "breakdown", "trend"];
const VALID_BREAKDOWN: &[&str] = &["lang", "language", "dir", "directory"];

pub fn ser_config(c: &Config) -> String {
    let s = &c.structure;
    let s_has_allow = !s.allow_files.is_empty() || !s.allow_dirs.is_empty() || !s.allow_extensions.is_empty();
    let s_has_deny = !s.deny_files.is_empty() || !s.deny_dirs.is_empty() || !s.deny_extensions.is_empty() || !s.deny_patterns.is_empty();
    let s_patterns_ok = s.count_exclude.iter().chain(&s.deny_patterns).chain(&s.deny_files).chain(&s.deny_dirs).chain(&s.allow_files).chain(&s.allow_dirs).all(|p| glob_ok(p.trim_end_matches('/')));
    let mut out = vec![
        c.content.warn_threshold.to_bits().to_string(),
        c.content.max_lines.to_string(),
        oint(c.content.warn_at),
        bit(c.scanner.exclude.iter().all(|p| glob_ok(p))).to_string(),
        bit(c.content.exclude.iter().all(|p| glob_ok(p))).to_string(),
        bit(c.stats.report.exclude.iter().all(|x| VALID_SECTIONS.contains(&x.to_lowercase().as_str()))).to_string(),
        bit(c.stats.report.breakdown_by.as_ref().is_none_or(|x| VALID_BREAKDOWN.contains(&x.to_lowercase().as_str()))).to_string(),
        ostr(c.stats.report.trend_since.as_ref()),
        oint(s.max_files),
        oint(s.max_dirs),
        oint(s.max_depth),
        of64(s.warn_threshold),
        of64(s.warn_files_threshold),
        of64(s.warn_dirs_threshold),
        oint(s.warn_files_at),
        oint(s.warn_dirs_at),
        bit(s_has_allow).to_string(),
        bit(s_has_deny).to_string(),
        bit(s_patterns_ok).to_string(),
        c.content.rules.len().to_string(),
    ];
    for r in &c.content.rules {
        out.push(bit(glob_ok(&r.pattern)).to_string());
        out.push(r.max_lines.to_string());
        out.push(of64(r.warn_threshold));
        out.push(oint(r.warn_at));
        out.push(ostr(r.expires.as_ref()));
    }
    out.push(s.rules.len().to_string());
    for r in &s.rules {
        out.push(bit(glob_ok(&r.scope)).to_string());
        out.push(oint(r.max_files));
        out.push(oint(r.max_dirs));
        out.push(oint(r.max_depth));
        out.push(of64(r.warn_threshold));
        out.push(of64(r.warn_files_threshold));
        out.push(of64(r.warn_dirs_threshold));
        out.push(oint(r.warn_files_at));
        out.push(oint(r.warn_dirs_at));
        out.push(bit(rule_has_allow(r)).to_string());
        out.push(bit(rule_has_deny(r)).to_string());
        out.push(bit(rule_patterns_ok(r)).to_string());
        out.push(ostr(r.expires.as_ref()));
        out.push(r.siblings.len().to_string());
        for sib in &r.siblings {
            match sib {
                SiblingRule::Directed { match_pattern, require, .. } => {
                    let pats = require.as_patterns();
                    out.push("d".into());
                    out.push(bit(match_pattern.is_empty()).to_string());
                    out.push(pats.len().to_string());
                    out.extend(pats.iter().map(|p| enc(p)));
                }
                SiblingRule::Group { group, .. } => {
                    out.push("g".into());
                    out.push(group.len().to_string());
                    out.extend(group.iter().map(|p| enc(p)));
                }
            }
        }
    }
    out.join(" ")
}

// ------------------------------------------------------------------ the documented domain, independently

fn unit(x: f64) -> bool {
    x >= 0.0 && x <= 1.0
}
fn date_ok(s: &str) -> bool {
    let p: Vec<&str> = s.split('-').collect();
    if p.len() != 3 {
        return false;
    }
    let num = |t: &str, max: u32| -> Option<u32> {
        let t = t.strip_prefix('+').unwrap_or(t);
        if t.is_empty() || !t.bytes().all(|b| b.is_ascii_digit()) {
            return None;
        }
        let v: u128 = t.parse().ok()?;
        if v <= u128::from(max) { Some(v as u32) } else { None }
    };
    // a date of the (proleptic Gregorian) calendar: the day exists in that month of that year
    match (num(p[0], 65535), num(p[1], 255), num(p[2], 255)) {
        (Some(y), Some(m), Some(d)) => {
            let leap = (y % 4 == 0 && y % 100 != 0) || y % 400 == 0;
            let days = match m {
                1 | 3 | 5 | 7 | 8 | 10 | 12 => 31,
                4 | 6 | 9 | 11 => 30,
                2 => if leap { 29 } else { 28 },
                _ => 0,
            };
            d >= 1 && d <= days
        }
        _ => false,
    }
}
fn duration_ok(s: &str) -> bool {
    let t = s.trim();
    let digits: String = t.chars().take_while(char::is_ascii_digit).collect();
    let unit: String = t.chars().skip(digits.len()).collect::<String>().to_lowercase();
    let Ok(v) = digits.parse::<u64>() else { return false };
    if v == 0 {
        return false;
    }
    let mult: u64 = match unit.as_str() {
        "s" | "sec" | "secs" | "second" | "seconds" => 1,
        "m" | "min" | "mins" | "minute" | "minutes" => 60,
        "h" | "hr" | "hrs" | "hour" | "hours" => 3600,
        "d" | "day" | "days" => 86400,
        "w" | "wk" | "wks" | "week" | "weeks" => 604_800,
        _ => return false,
    };
    v.checked_mul(mult).is_some()
}
fn below(w: Option<i64>, m: Option<i64>) -> bool {
    match (w, m) {
        (Some(w), Some(m)) => m < 0 || w < m,
        _ => true,
    }
}

/// the property's domain, written from its text; `None` = inside
pub fn out_of_domain(c: &Config) -> Option<String> {
    if !unit(c.content.warn_threshold) {
        return Some("content.warn_threshold outside [0,1]".into());
    }
    if c.content.warn_at.is_some_and(|w| w >= c.content.max_lines) {
        return Some("content.warn_at not below max_lines".into());
    }
    for (i, r) in c.content.rules.iter().enumerate() {
        if r.warn_threshold.is_some_and(|t| !unit(t)) {
            return Some(format!("content.rules[{i}].warn_threshold outside [0,1]"));
        }
        let eff_warn = r.warn_at.or(if r.warn_threshold.is_none() { c.content.warn_at } else { None });
        if eff_warn.is_some_and(|w| w >= r.max_lines) {
            return Some(format!("content.rules[{i}]: warn point not below max_lines"));
        }
        if r.expires.as_ref().is_some_and(|e| !date_ok(e)) {
            return Some(format!("content.rules[{i}].expires is not a date"));
        }
        if !glob_ok(&r.pattern) {
            return Some(format!("content.rules[{i}].pattern is not a glob"));
        }
    }
    if !c.scanner.exclude.iter().chain(&c.content.exclude).all(|p| glob_ok(p)) {
        return Some("exclude pattern is not a glob".into());
    }
    if !c.stats.report.exclude.iter().all(|x| VALID_SECTIONS.contains(&x.to_lowercase().as_str())) {
        return Some("stats.report.exclude names no section".into());
    }
    if c.stats.report.breakdown_by.as_ref().is_some_and(|x| !VALID_BREAKDOWN.contains(&x.to_lowercase().as_str())) {
        return Some("stats.report.breakdown_by invalid".into());
    }
    if c.stats.report.trend_since.as_ref().is_some_and(|d| !duration_ok(d)) {
        return Some("stats.report.trend_since is not a duration".into());
    }
    let s = &c.structure;
    for t in [s.warn_threshold, s.warn_files_threshold, s.warn_dirs_threshold].into_iter().flatten() {
        if !unit(t) {
            return Some("structure warn threshold outside [0,1]".into());
        }
    }
    for l in [s.max_files, s.max_dirs, s.max_depth].into_iter().flatten() {
        if l < -1 {
            return Some("structure limit below -1".into());
        }
    }
    for w in [s.warn_files_at, s.warn_dirs_at].into_iter().flatten() {
        if w < 0 {
            return Some("structure warn point negative".into());
        }
    }
    if !below(s.warn_files_at, s.max_files) || !below(s.warn_dirs_at, s.max_dirs) {
        return Some("structure warn point not below its limit".into());
    }
    let s_has_allow = !s.allow_files.is_empty() || !s.allow_dirs.is_empty() || !s.allow_extensions.is_empty();
    let s_has_deny = !s.deny_files.is_empty() || !s.deny_dirs.is_empty() || !s.deny_extensions.is_empty() || !s.deny_patterns.is_empty();
    if s_has_allow && s_has_deny {
        return Some("structure mixes allow and deny lists".into());
    }
    if !s.count_exclude.iter().chain(&s.deny_patterns).chain(&s.deny_files).chain(&s.deny_dirs).all(|p| glob_ok(p.trim_end_matches('/'))) {
        return Some("structure pattern is not a glob".into());
    }
    for (i, r) in s.rules.iter().enumerate() {
        for t in [r.warn_threshold, r.warn_files_threshold, r.warn_dirs_threshold].into_iter().flatten() {
            if !unit(t) {
                return Some(format!("structure.rules[{i}] warn threshold outside [0,1]"));
            }
        }
        for l in [r.max_files, r.max_dirs, r.max_depth].into_iter().flatten() {
            if l < -1 {
                return Some(format!("structure.rules[{i}] limit below -1"));
            }
        }
        for w in [r.warn_files_at, r.warn_dirs_at].into_iter().flatten() {
            if w < 0 {
                return Some(format!("structure.rules[{i}] warn point negative"));
            }
        }
        if !below(r.warn_files_at, r.max_files) || !below(r.warn_dirs_at, r.max_dirs) || !below(r.warn_files_at.or(s.warn_files_at), r.max_files.or(s.max_files)) || !below(r.warn_dirs_at.or(s.warn_dirs_at), r.max_dirs.or(s.max_dirs)) {
            return Some(format!("structure.rules[{i}] warn point not below its limit"));
        }
        if r.expires.as_ref().is_some_and(|e| !date_ok(e)) {
            return Some(format!("structure.rules[{i}].expires is not a date"));
        }
        if rule_has_allow(r) && rule_has_deny(r) {
            return Some(format!("structure.rules[{i}] mixes allow and deny lists"));
        }
        if !glob_ok(&r.scope) || !rule_patterns_ok(r) {
            return Some(format!("structure.rules[{i}] has a malformed pattern"));
        }
        for sib in &r.siblings {
            let ok = match sib {
                SiblingRule::Directed { match_pattern, require, .. } => {
                    let p = require.as_patterns();
                    !match_pattern.is_empty() && !p.is_empty() && p.iter().all(|x| !x.is_empty() && x.contains("{stem}"))
                }
                SiblingRule::Group { group, .. } => group.len() >= 2 && group.iter().all(|x| !x.is_empty() && x.contains("{stem}")),
            };
            if !ok {
                return Some(format!("structure.rules[{i}] has a malformed sibling rule"));
            }
        }
    }
    None
}

// ------------------------------------------------------------------ flags

#[derive(Clone, Default)]
struct Flags {
    max_lines: Option<u64>,
    warn_threshold: Option<f64>,
    max_files: Option<i64>,
    max_dirs: Option<i64>,
    max_depth: Option<i64>,
}

impl Flags {
    fn is_empty(&self) -> bool {
        self.max_lines.is_none() && self.warn_threshold.is_none() && self.max_files.is_none() && self.max_dirs.is_none() && self.max_depth.is_none()
    }
    fn args(&self) -> Vec<String> {
        let mut a = vec![];
        if let Some(v) = self.max_lines {
            a.push(format!("--max-lines={v}"));
        }
        if let Some(v) = self.warn_threshold {
            a.push(format!("--warn-threshold={}", if v.is_nan() { "nan".to_string() } else if v.is_infinite() { if v > 0.0 { "inf".into() } else { "-inf".into() } } else { format!("{v:?}") }));
        }
        if let Some(v) = self.max_files {
            a.push(format!("--max-files={v}"));
        }
        if let Some(v) = self.max_dirs {
            a.push(format!("--max-dirs={v}"));
        }
        if let Some(v) = self.max_depth {
            a.push(format!("--max-depth={v}"));
        }
        if self.max_files.is_some() || self.max_dirs.is_some() || self.max_depth.is_some() {
            a.push(".".into());
        }
        a
    }
    fn ser(&self) -> String {
        format!("{} {} {} {} {}", oint(self.max_lines), of64(self.warn_threshold), oint(self.max_files), oint(self.max_dirs), oint(self.max_depth))
    }
    fn apply(&self, c: &Config) -> Config {
        let mut c = c.clone();
        if let Some(v) = self.max_lines {
            c.content.max_lines = v as usize;
        }
        if let Some(v) = self.warn_threshold {
            c.content.warn_threshold = v;
        }
        if let Some(v) = self.max_files {
            c.structure.max_files = Some(v);
        }
        if let Some(v) = self.max_dirs {
            c.structure.max_dirs = Some(v);
        }
        if let Some(v) = self.max_depth {
            c.structure.max_depth = Some(v);
        }
        c
    }
}

fn gen_flags(rng: &mut Rng) -> Flags {
    let mut f = Flags::default();
    match rng.below(8) {
        0 => f.max_lines = Some(*rng.pick(&[0u64, 1, 5, 99, 100, 600, 100_000])),
        1 => f.warn_threshold = Some(*rng.pick(THRESHOLDS)),
        2 => f.max_files = Some(*rng.pick(LIMITS)),
        3 => f.max_dirs = Some(*rng.pick(LIMITS)),
        4 => f.max_depth = Some(*rng.pick(LIMITS)),
        5 => {
            f.max_lines = Some(*rng.pick(&[3u64, 50]));
            f.warn_threshold = Some(*rng.pick(THRESHOLDS));
        }
        _ => {}
    }
    f
}

// ------------------------------------------------------------------ running the binary

struct Run {
    rc: i32,
    err: String,
    panicked: bool,
    timed_out: bool,
}

fn run_bin(bin: &str, dir: &Path, args: &[String]) -> Run {
    let mut child = Command::new(bin)
        .args(args)
        .current_dir(dir)
        .env("NO_COLOR", "1")
        .stdin(Stdio::null())
        .stdout(Stdio::null())
        .stderr(Stdio::piped())
        .spawn()
        .expect("spawn sloc-guard");
    let start = Instant::now();
    let mut timed_out = false;
    loop {
        match child.try_wait() {
            Ok(Some(_)) => break,
            Ok(None) => {
                if start.elapsed() > Duration::from_secs(10) {
                    let _ = child.kill();
                    timed_out = true;
                    break;
                }
                std::thread::sleep(Duration::from_millis(2));
            }
            Err(_) => break,
        }
    }
    let out = child.wait_with_output().expect("wait");
    let err = String::from_utf8_lossy(&out.stderr).into_owned();
    Run { rc: out.status.code().unwrap_or(-1), panicked: err.contains("panicked at"), err, timed_out }
}

fn idx_of(msg: &str, prefix: &str) -> Option<usize> {
    let i = msg.find(prefix)? + prefix.len();
    let digits: String = msg[i..].chars().take_while(char::is_ascii_digit).collect();
    digits.parse().ok()
}

/// the setting a diagnostic names, in the model's vocabulary
fn field_of(err: &str) -> String {
    let m = err;
    let ci = idx_of(m, "content.rules[");
    let si = idx_of(m, "structure.rules[");
    let rule_n = idx_of(m, "in rule ").or_else(|| idx_of(m, "Rule ")).map(|n| n.saturating_sub(1));
    if m.contains("content.warn_threshold must be") {
        return "content.warn_threshold".into();
    }
    if let Some(i) = ci {
        if m.contains("].warn_threshold must be") {
            return format!("content.rules[{i}].warn_threshold");
        }
        if m.contains("inherits content.warn_at") {
            return format!("content.rules[{i}].inherited_warn_at");
        }
        if m.contains("].warn_at (") {
            return format!("content.rules[{i}].warn_at");
        }
        if m.contains("].expires:") {
            return format!("content.rules[{i}].expires");
        }
    }
    if m.contains("content.warn_at (") {
        return "content.warn_at".into();
    }
    if m.contains("stats.report.exclude") {
        return "stats.report.exclude".into();
    }
    if m.contains("stats.report.breakdown_by") {
        return "stats.report.breakdown_by".into();
    }
    if m.contains("stats.report.trend_since") {
        return "stats.report.trend_since".into();
    }
    if let Some(i) = si {
        for k in ["warn_threshold", "warn_files_threshold", "warn_dirs_threshold"] {
            if m.contains(&format!("].{k} must be between")) {
                return format!("structure.rules[{i}].{k}");
            }
        }
        for k in ["warn_files_at", "warn_dirs_at"] {
            if m.contains(&format!("].{k} must be non-negative")) {
                return format!("structure.rules[{i}].{k}<0");
            }
            if m.contains(&format!("]: effective {k}")) {
                return format!("structure.rules[{i}].effective_{k}");
            }
            if m.contains(&format!("].{k} (")) {
                return format!("structure.rules[{i}].{k}>=max");
            }
        }
        if m.contains("].expires:") {
            return format!("structure.rules[{i}].expires");
        }
    }
    for k in ["warn_threshold", "warn_files_threshold", "warn_dirs_threshold"] {
        if m.contains(&format!("structure.{k} must be between")) {
            return format!("structure.{k}");
        }
    }
    for k in ["warn_files_at", "warn_dirs_at"] {
        if m.contains(&format!("structure.{k} must be non-negative")) {
            return format!("structure.{k}<0");
        }
        if m.contains(&format!("structure.{k} (")) {
            return format!("structure.{k}>=max");
        }
    }
    for k in ["max_files", "max_dirs", "max_depth"] {
        if m.contains(&format!("Invalid {k} value in rule")) {
            return format!("structure.rules[{}].{k}", rule_n.unwrap_or(999));
        }
        if m.contains(&format!("Invalid {k} value:")) {
            return format!("structure.{k}");
        }
    }
    if m.contains(" sibling ") {
        let j = idx_of(m, " sibling ").map_or(999, |n| n.saturating_sub(1));
        return format!("structure.rules[{}].siblings[{j}]", rule_n.unwrap_or(999));
    }
    if m.contains("Global structure config cannot mix") {
        return "structure.allow+deny".into();
    }
    if m.contains("cannot mix allow_* and deny_*") {
        return format!("structure.rules[{}].allow+deny", rule_n.unwrap_or(999));
    }
    if m.contains("Invalid naming pattern regex") {
        return "structure.pattern".into();
    }
    if m.contains("InvalidPattern") || m.contains("error parsing glob") {
        // the generator uses a distinct malformed pattern per list
        if m.contains("[se") || m.contains("{se") {
            return "scanner.exclude".into();
        }
        if m.contains("[ce") || m.contains("{ce") {
            return "content.exclude".into();
        }
        if m.contains("[rp") || m.contains("src/{a,b") {
            return "content.rules.pattern".into();
        }
        return "structure.pattern".into();
    }
    // a value the TOML / serde layer rejects (wrong type, negative for an unsigned setting): the
    // diagnostic quotes the offending source line, `NN | key = value`, which names the setting
    if m.contains("TOML parse error") {
        for l in m.lines() {
            if let Some((num, rest)) = l.split_once(" | ") {
                if !num.trim().is_empty() && num.trim().chars().all(|c| c.is_ascii_digit()) {
                    if let Some((key, _)) = rest.split_once('=') {
                        let key = key.trim();
                        if !key.is_empty() && key.chars().all(|c| c.is_ascii_alphanumeric() || c == '_' || c == '.' || c == '-') {
                            return format!("toml:{key}");
                        }
                    }
                }
            }
        }
    }
    format!("unrecognised:{}", m.lines().next().unwrap_or("").chars().take(80).collect::<String>())
}

fn project(dir: &Path, toml_text: &str) {
    let _ = std::fs::remove_dir_all(dir);
    std::fs::create_dir_all(dir.join("src")).unwrap();
    // bases for the `extends` documents
    std::fs::write(dir.join("base.toml"), "version = \"2\"\n[content]\nmax_lines = 300\n").unwrap();
    std::fs::write(dir.join("base3.toml"), "version = \"3\"\n[content]\nmax_lines = 300\n").unwrap();
    std::fs::write(dir.join("src/a.rs"), "fn a() {}\nfn b() {}\n").unwrap();
    std::fs::write(dir.join(".sloc-guard.toml"), toml_text).unwrap();
}

fn sv(xs: &[&str]) -> Vec<String> {
    xs.iter().map(|s| (*s).to_string()).collect()
}

struct Observed {
    load: String,
    check: String,
    problems: Vec<String>,
    rc_plain: i32,
    rc_flags: i32,
    rc_validate: i32,
}

fn observe(bin: &str, dir: &Path, flags: &Flags) -> Observed {
    let mut problems = vec![];
    let mut run = |label: &str, args: Vec<String>| -> Run {
        let r = run_bin(bin, dir, &args);
        if r.panicked {
            problems.push(format!("`{label}` panicked: {}", r.err.lines().find(|l| l.contains("panicked at")).unwrap_or("")));
        }
        if r.timed_out {
            problems.push(format!("`{label}` did not finish in 10 s"));
        }
        if !r.timed_out && !r.panicked && !(0..=2).contains(&r.rc) {
            problems.push(format!("`{label}` exits {}", r.rc));
        }
        if r.rc == 2 && r.err.trim().is_empty() {
            problems.push(format!("`{label}` exits 2 without a diagnostic"));
        }
        r
    };
    let plain = run("check", sv(&["check", "--no-sloc-cache", "--quiet"]));
    let with_flags = if flags.is_empty() {
        None
    } else {
        let mut a = sv(&["check", "--no-sloc-cache", "--quiet"]);
        a.extend(flags.args());
        Some(run("check <flags>", a))
    };
    let validate = run("config validate", sv(&["config", "validate"]));
    let show = run("config show", sv(&["config", "show"]));
    let stats = run("stats summary", sv(&["stats", "summary", "--no-sloc-cache"]));
    let sources = run("explain --sources", sv(&["explain", "--sources"]));
    let accepted = |r: &Run| r.rc == 0 || r.rc == 1;
    if accepted(&plain) != (validate.rc == 0) {
        problems.push(format!("`config validate` exits {} but `check` exits {}", validate.rc, plain.rc));
    }
    if (show.rc == 0) != (validate.rc == 0) {
        problems.push(format!("`config show` exits {} but `config validate` exits {}", show.rc, validate.rc));
    }
    if (sources.rc == 0) != (validate.rc == 0) {
        problems.push(format!("`explain --sources` exits {} but `config validate` exits {}", sources.rc, validate.rc));
    }
    if (stats.rc == 0) != (validate.rc == 0) {
        problems.push(format!("`stats summary` exits {} but `config validate` exits {}", stats.rc, validate.rc));
    }
    let load = if validate.rc == 0 { "ok".to_string() } else { field_of(&validate.err) };
    let check = if !accepted(&plain) {
        format!("load:{}", field_of(&plain.err))
    } else {
        match &with_flags {
            Some(r) if !accepted(r) => format!("flags:{}", field_of(&r.err)),
            _ => "proceeds".to_string(),
        }
    };
    for (label, r) in [("check", Some(&plain)), ("check <flags>", with_flags.as_ref()), ("config validate", Some(&validate))] {
        if let Some(r) = r {
            if r.rc == 2 && field_of(&r.err).starts_with("unrecognised:") {
                problems.push(format!("`{label}` exits 2 with a diagnostic that names no setting: {}", r.err.lines().next().unwrap_or("")));
            }
        }
    }
    Observed { load, check, problems, rc_plain: plain.rc, rc_flags: with_flags.as_ref().map_or(plain.rc, |r| r.rc), rc_validate: validate.rc }
}

fn gate_case(sink: &mut Sink, rng: &mut Rng, bin: &str, scratch: &str) {
    let mut t = base(rng);
    let nmut = *rng.pick(&[0usize, 1, 1, 1, 1, 2, 2, 3]);
    let mut labels = vec![];
    for _ in 0..nmut {
        let which = rng.below(MUTATIONS);
        labels.push(mutate(rng, &mut t, which));
    }
    let flags = gen_flags(rng);
    if !sink.want() {
        sink.skip();
        return;
    }
    let text = toml::to_string(&Value::Table(t)).expect("serialise");
    let parsed: Result<Config, _> = toml::from_str(&text);
    let dir = PathBuf::from(scratch).join(format!("g{}", sink.n));
    project(&dir, &text);
    let obs = observe(bin, &dir, &flags);
    let _ = std::fs::remove_dir_all(&dir);
    let mut problems = obs.problems;
    let (request, implementation) = match &parsed {
        Ok(cfg) => {
            let bad_file = out_of_domain(cfg);
            let bad_flags = out_of_domain(&flags.apply(cfg));
            let accepted = |rc: i32| rc == 0 || rc == 1;
            match (&bad_file, accepted(obs.rc_plain)) {
                (Some(why), true) => problems.push(format!("`check` exits {} on a configuration outside the domain ({why})", obs.rc_plain)),
                (None, false) => problems.push(format!("`check` rejects a configuration inside the domain (exit {})", obs.rc_plain)),
                _ => {}
            }
            if bad_file.is_none() {
                match (&bad_flags, accepted(obs.rc_flags)) {
                    (Some(why), true) => problems.push(format!("`check {}` exits {} although the overridden configuration is outside the domain ({why})", flags.args().join(" "), obs.rc_flags)),
                    (None, false) => problems.push(format!("`check {}` rejects values inside the domain (exit {})", flags.args().join(" "), obs.rc_flags)),
                    _ => {}
                }
            }
            if bad_file.is_some() && obs.rc_validate == 0 {
                problems.push("`config validate` accepts a configuration outside the domain".to_string());
            }
            (format!("gate {} {}", ser_config(cfg), flags.ser()), format!("load={} check={}", obs.load, obs.check))
        }
        Err(_) => {
            // the document does not fit the serde model: only the outcome is checked
            if obs.rc_plain != 2 || obs.rc_validate != 2 {
                problems.push(format!("a document the configuration model rejects gives check={} validate={}", obs.rc_plain, obs.rc_validate));
            }
            ("noop".to_string(), "-".to_string())
        }
    };
    let mut tag = if labels.is_empty() { "valid-base".to_string() } else { labels.join("+") };
    if !flags.is_empty() {
        tag += "/flags";
    }
    sink.push(Case {
        request,
        implementation,
        pred: if problems.is_empty() { "ok".into() } else { format!("FAIL {} :: {}", problems.join("; "), text.replace('\n', "\\n").chars().take(500).collect::<String>()) },
        tag,
    });
}

// ------------------------------------------------------------------ TOML-level mutations

fn toml_level_case(sink: &mut Sink, rng: &mut Rng, bin: &str, scratch: &str) {
    const DOCS: &[(&str, &str, bool)] = &[
        ("version-3", "version = \"3\"\n[content]\nmax_lines = 100\n", true),
        ("version-1", "version = \"1\"\n[content]\nmax_lines = 100\n", true),
        ("version-int", "version = 2\n[content]\nmax_lines = 100\n", true),
        ("version-absent", "[content]\nmax_lines = 100\n", false),
        ("version-3-extends-preset", "version = \"3\"\nextends = \"preset:rust-strict\"\n", true),
        ("version-1-extends-preset", "version = \"1\"\nextends = \"preset:node-strict\"\n[content]\nmax_lines = 100\n", true),
        ("version-3-extends-local", "version = \"3\"\nextends = \"base.toml\"\n", true),
        // the child's `version` overrides the base's in the merge: the effective configuration is version 2
        ("version-2-extends-local-v3", "version = \"2\"\nextends = \"base3.toml\"\n", false),
        ("version-3-reset-marker", "version = \"3\"\n[content]\nextensions = [\"$reset\", \"rs\"]\n", true),
        ("version-2-extends-local", "version = \"2\"\nextends = \"base.toml\"\n", false),
        ("max-lines-string", "version = \"2\"\n[content]\nmax_lines = \"100\"\n", true),
        ("max-lines-negative", "version = \"2\"\n[content]\nmax_lines = -1\n", true),
        ("max-lines-float", "version = \"2\"\n[content]\nmax_lines = 100.5\n", true),
        ("max-lines-2^63", "version = \"2\"\n[content]\nmax_lines = 9223372036854775807\n", false),
        ("max-lines-2^64", "version = \"2\"\n[content]\nmax_lines = 18446744073709551616\n", true),
        ("max-lines-1e30", "version = \"2\"\n[content]\nmax_lines = 1000000000000000000000000000000\n", true),
        ("warn-threshold-string", "version = \"2\"\n[content]\nwarn_threshold = \"0.5\"\n", true),
        ("warn-threshold-bool", "version = \"2\"\n[content]\nwarn_threshold = true\n", true),
        ("warn-at-negative", "version = \"2\"\n[content]\nwarn_at = -3\n", true),
        ("extensions-scalar", "version = \"2\"\n[content]\nextensions = \"rs\"\n", true),
        ("rules-table", "version = \"2\"\n[content.rules]\npattern = \"*\"\nmax_lines = 5\n", true),
        ("rule-without-max-lines", "version = \"2\"\n[[content.rules]]\npattern = \"*.rs\"\n", true),
        ("rule-without-pattern", "version = \"2\"\n[[content.rules]]\nmax_lines = 5\n", true),
        ("structure-max-files-string", "version = \"2\"\n[structure]\nmax_files = \"10\"\n", true),
        ("structure-max-files-2^63", "version = \"2\"\n[structure]\nmax_files = 9223372036854775808\n", true),
        ("structure-max-files-min", "version = \"2\"\n[structure]\nmax_files = -9223372036854775808\n", true),
        ("structure-warn-files-at-float", "version = \"2\"\n[structure]\nmax_files = 10\nwarn_files_at = 5.5\n", true),
        ("sibling-mixed", "version = \"2\"\n[[structure.rules]]\nscope = \"src\"\nsiblings = [{ match = \"*.rs\", require = \"{stem}.md\", group = [\"{stem}.a\", \"{stem}.b\"] }]\n", true),
        ("sibling-empty", "version = \"2\"\n[[structure.rules]]\nscope = \"src\"\nsiblings = [{}]\n", true),
        ("sibling-match-only", "version = \"2\"\n[[structure.rules]]\nscope = \"src\"\nsiblings = [{ match = \"*.rs\" }]\n", true),
        ("trend-max-age-negative", "version = \"2\"\n[trend]\nmax_age_days = -1\n", true),
        ("trend-max-age-huge", "version = \"2\"\n[trend]\nmax_age_days = 9223372036854775807\n", false),
        ("trend-min-interval-huge", "version = \"2\"\n[trend]\nmin_interval_secs = 9223372036854775807\n", false),
        ("ratchet-unknown", "version = \"2\"\n[baseline]\nratchet = \"sometimes\"\n", true),
        ("duplicate-key", "version = \"2\"\n[content]\nmax_lines = 5\nmax_lines = 6\n", true),
        ("not-toml", "version = \"2\"\n[content\nmax_lines = 5\n", true),
        ("empty", "", false),
        ("extends-int", "extends = 5\nversion = \"2\"\n", true),
        ("extends-sha-int", "version = \"2\"\nextends_sha256 = 5\n", true),
        ("rules-reset-marker-alone", "version = \"2\"\n[content]\nextensions = [\"rs\"]\n[[content.rules]]\npattern = \"$reset\"\n[[content.rules]]\npattern = \"src/**\"\nmax_lines = 50\n", false),
        ("structure-rules-reset-marker-alone", "version = \"2\"\n[structure]\nmax_files = 10\n[[structure.rules]]\nscope = \"$reset\"\n[[structure.rules]]\nscope = \"src/**\"\nmax_files = 5\n", false),
        ("rules-reset-marker-second", "version = \"2\"\n[content]\nextensions = [\"rs\"]\n[[content.rules]]\npattern = \"src/**\"\nmax_lines = 50\n[[content.rules]]\npattern = \"$reset\"\n", true),
        ("language-no-ext", "version = \"2\"\n[languages.foo]\nextensions = []\nsingle_line_comments = [\"#\"]\n", false),
        ("language-ext-scalar", "version = \"2\"\n[languages.foo]\nextensions = \"foo\"\n", true),
    ];
    let (label, text, must_reject) = *rng.pick(DOCS);
    if !sink.want() {
        sink.skip();
        return;
    }
    let dir = PathBuf::from(scratch).join(format!("t{}", sink.n));
    project(&dir, text);
    let obs = observe(bin, &dir, &Flags::default());
    let _ = std::fs::remove_dir_all(&dir);
    let mut problems: Vec<String> = obs.problems.into_iter().filter(|p| !p.contains("names no setting")).collect();
    if must_reject && (obs.rc_plain != 2 || obs.rc_validate != 2) {
        problems.push(format!("{label}: check exits {} and config validate exits {}", obs.rc_plain, obs.rc_validate));
    }
    sink.push(Case { request: "noop".into(), implementation: "-".into(), pred: if problems.is_empty() { "ok".into() } else { format!("FAIL {}", problems.join("; ")) }, tag: format!("toml/{label}") });
}

// ------------------------------------------------------------------ presets and init templates

fn preset_cases(sink: &mut Sink, bin: &str, scratch: &str) {
    for name in sloc_guard::config::presets::AVAILABLE_PRESETS {
        if !sink.want() {
            sink.skip();
            continue;
        }
        let mut problems = vec![];
        let implementation = match sloc_guard::config::presets::load_preset(name).and_then(|v| v.try_into::<Config>().map_err(|e| sloc_guard::SlocGuardError::Config(e.to_string()))) {
            Ok(cfg) => {
                if let Some(why) = out_of_domain(&cfg) {
                    problems.push(format!("preset {name} is outside the documented domain: {why}"));
                }
                format!("gate=ok cfg={}", ser_config(&cfg).replace(' ', ","))
            }
            Err(e) => {
                problems.push(format!("preset {name} does not load: {e}"));
                "error".to_string()
            }
        };
        let dir = PathBuf::from(scratch).join(format!("p{}", sink.n));
        project(&dir, &format!("version = \"2\"\nextends = \"preset:{name}\"\n"));
        let obs = observe(bin, &dir, &Flags::default());
        let _ = std::fs::remove_dir_all(&dir);
        problems.extend(obs.problems);
        if obs.rc_validate != 0 || obs.rc_plain == 2 {
            problems.push(format!("a project extending preset:{name} gives validate={} check={}", obs.rc_validate, obs.rc_plain));
        }
        sink.push(Case { request: format!("preset {}", enc(name)), implementation, pred: if problems.is_empty() { "ok".into() } else { format!("FAIL {}", problems.join("; ")) }, tag: format!("preset/{name}") });
    }
}

fn init_cases(sink: &mut Sink, bin: &str, scratch: &str) {
    const MARKERS: &[(&str, &[(&str, &str)])] = &[
        ("plain", &[]),
        ("rust", &[("Cargo.toml", "[package]\nname = \"x\"\nversion = \"0.1.0\"\n")]),
        ("node", &[("package.json", "{\"name\":\"x\"}\n")]),
        ("python", &[("pyproject.toml", "[project]\nname = \"x\"\n")]),
        ("go", &[("go.mod", "module x\n")]),
        ("rust+node", &[("Cargo.toml", "[package]\nname = \"x\"\nversion = \"0.1.0\"\n"), ("package.json", "{\"name\":\"x\"}\n")]),
        ("monorepo", &[("packages/a/package.json", "{\"name\":\"a\"}\n"), ("packages/b/Cargo.toml", "[package]\nname = \"b\"\nversion = \"0.1.0\"\n")]),
    ];
    for (label, files) in MARKERS {
        for extra in [&[][..], &["--detect"][..]] {
            if !sink.want() {
                sink.skip();
                continue;
            }
            let dir = PathBuf::from(scratch).join(format!("i{}", sink.n));
            let _ = std::fs::remove_dir_all(&dir);
            std::fs::create_dir_all(dir.join("src")).unwrap();
            std::fs::write(dir.join("src/a.rs"), "fn a() {}\n").unwrap();
            for (p, c) in *files {
                std::fs::create_dir_all(dir.join(p).parent().unwrap()).unwrap();
                std::fs::write(dir.join(p), c).unwrap();
            }
            let mut args = sv(&["init"]);
            args.extend(extra.iter().map(|s| (*s).to_string()));
            let init = run_bin(bin, &dir, &args);
            let mut problems = vec![];
            if init.panicked || init.timed_out {
                problems.push(format!("`init {}` panicked or hung", extra.join(" ")));
            }
            // an unknown flag is a usage error of this probe, not of the tool
            let usable = init.rc == 0 && dir.join(".sloc-guard.toml").exists();
            if usable {
                let obs = observe(bin, &dir, &Flags::default());
                problems.extend(obs.problems);
                if obs.rc_validate != 0 || obs.rc_plain == 2 {
                    problems.push(format!("the template written by `init {}` gives validate={} check={}", extra.join(" "), obs.rc_validate, obs.rc_plain));
                }
                if let Ok(cfg) = toml::from_str::<Config>(&std::fs::read_to_string(dir.join(".sloc-guard.toml")).unwrap_or_default()) {
                    if let Some(why) = out_of_domain(&cfg) {
                        problems.push(format!("the template written by `init {}` is outside the domain: {why}", extra.join(" ")));
                    }
                }
            }
            let _ = std::fs::remove_dir_all(&dir);
            sink.push(Case { request: "noop".into(), implementation: "-".into(), pred: if problems.is_empty() { "ok".into() } else { format!("FAIL {}", problems.join("; ")) }, tag: format!("init/{label}{}{}", if extra.is_empty() { "" } else { "/detect" }, if usable { "" } else { "/not-written" }) });
        }
    }
}

fn date_cases(sink: &mut Sink) {
    // the date parser through the gate's own entry point
    for d in DATES.iter().copied().chain(["2025-12-31", "0-1-1", "65535-12-31", "65536-12-31", "2025-012-01", "2025-12-031", "2025-256-01", "٢٠٢٥-01-01", "2025-1２-01", "2025/01/01", "-2025-01-01", "2025-01-+1"]) {
        if !sink.want() {
            sink.skip();
            continue;
        }
        let mut cfg = Config::default();
        cfg.content.rules.push(sloc_guard::config::ContentRule { pattern: "*.rs".into(), max_lines: 10_000, warn_threshold: None, warn_at: None, skip_comments: None, skip_blank: None, reason: None, expires: Some(d.to_string()) });
        let got = sloc_guard::config::verif_exports::validate_config_semantics(&cfg).is_ok();
        let want = date_ok(d);
        sink.push(Case {
            request: format!("date {}", enc(d)),
            implementation: bit(got).to_string(),
            pred: if got == want { "ok".into() } else { format!("FAIL expires = {d:?}: accepted={got}, a YYYY-MM-DD date={want}") },
            tag: format!("date/{}", if want { "valid" } else { "invalid" }),
        });
    }
}

/// the numeric flags and settings of the other sub-commands: every value either works or is
/// rejected with exit 2 — never a panic, an abort or a hang
fn other_numeric_cases(sink: &mut Sink, bin: &str, scratch: &str) {
    let values = ["0", "1", "3", "4294967296", "9223372036854775807", "18446744073709551615", "18446744073709551616", "-1", "1e3", ""];
    let mut cases: Vec<(String, Vec<String>, Option<String>)> = vec![];
    for v in values {
        cases.push((format!("stats report --top {v}"), sv(&["stats", "report", "--no-sloc-cache", "--top", v]), None));
        cases.push((format!("stats files --top {v}"), sv(&["stats", "files", "--no-sloc-cache", "--top", v]), None));
        cases.push((format!("stats.report.top_count = {v}"), sv(&["stats", "report", "--no-sloc-cache"]), Some(format!("version = \"2\"\n[stats.report]\ntop_count = {}\n", if v.is_empty() { "\"\"" } else { v }))));
        cases.push((format!("check --max-lines {v}"), sv(&["check", "--no-sloc-cache", "--max-lines", v, "."]), None));
        cases.push((format!("check --max-files {v}"), sv(&["check", "--no-sloc-cache", "--max-files", v, "."]), None));
        cases.push((format!("check --max-dirs {v}"), sv(&["check", "--no-sloc-cache", "--max-dirs", v, "."]), None));
    }
    // flag values outside the documented domain (durations, globs): the command must exit 2
    let n_numeric = cases.len();
    for d in ["abc", "7y", "0d", "", "99999999999999999999d"] {
        cases.push((format!("stats trend --since {d}"), sv(&["stats", "trend", "--no-sloc-cache", "--since", d]), None));
        cases.push((format!("stats report --since {d}"), sv(&["stats", "report", "--no-sloc-cache", "--since", d]), None));
    }
    for g in ["[bad", "src/{a", "[z-a]"] {
        cases.push((format!("check --exclude {g}"), sv(&["check", "--no-sloc-cache", "--exclude", g, "."]), None));
        cases.push((format!("check --exclude {g} --files"), sv(&["check", "--no-sloc-cache", "--exclude", g, "--files", "src/a.rs"]), None));
        cases.push((format!("stats summary --exclude {g}"), sv(&["stats", "summary", "--no-sloc-cache", "--exclude", g]), None));
    }
    for (ci, (label, args, cfg)) in cases.into_iter().enumerate() {
        let must_reject = ci >= n_numeric;
        if !sink.want() {
            sink.skip();
            continue;
        }
        let dir = PathBuf::from(scratch).join(format!("n{}", sink.n));
        project(&dir, cfg.as_deref().unwrap_or("version = \"2\"\n"));
        let mut child = std::process::Command::new(bin).args(&args).current_dir(&dir).env("NO_COLOR", "1").stdout(std::process::Stdio::null()).stderr(std::process::Stdio::piped()).spawn().expect("run sloc-guard");
        let t0 = std::time::Instant::now();
        let mut hung = false;
        let status = loop {
            match child.try_wait() {
                Ok(Some(st)) => break Some(st),
                Ok(None) if t0.elapsed() > std::time::Duration::from_secs(20) => {
                    let _ = child.kill();
                    hung = true;
                    break None;
                }
                Ok(None) => std::thread::sleep(std::time::Duration::from_millis(5)),
                Err(_) => break None,
            }
        };
        let mut err = String::new();
        if let Some(mut e) = child.stderr.take() {
            use std::io::Read;
            let _ = e.read_to_string(&mut err);
        }
        let _ = child.wait();
        let rc = status.and_then(|s| s.code());
        let pred = if hung {
            Some(format!("`{label}` did not finish within 20 s"))
        } else if err.contains("panicked at") || rc == Some(101) {
            Some(format!("`{label}` panicked: {}", err.lines().find(|l| l.contains("panicked")).unwrap_or("")))
        } else if rc.is_none() || !matches!(rc, Some(0..=2)) {
            Some(format!("`{label}` ended abnormally (exit {rc:?}): {}", err.lines().next().unwrap_or("")))
        } else if must_reject && rc != Some(2) {
            let key = if label.contains("--since") { "key=invalid-since-falls-back " } else { "" };
            Some(format!("{key}`{label}` exits {rc:?} although the value is outside the documented domain: {}", err.lines().find(|l| !l.trim().is_empty()).unwrap_or("")))
        } else {
            None
        };
        let _ = std::fs::remove_dir_all(&dir);
        sink.push(Case { request: "noop".into(), implementation: "-".into(), pred: pred.map_or_else(|| "ok".to_string(), |p| format!("FAIL {p}")), tag: format!("numeric/{}/exit{}", label.split(' ').take(2).collect::<Vec<_>>().join("-"), rc.unwrap_or(-1)) });
    }
}

pub fn run(tier: Tier, seed: u64, out: &str) {
    let mut sink = Sink::create(out);
    let mut rng = Rng::new(seed ^ 0xC17);
    let scratch = std::env::var("SGVERIF_SCRATCH").unwrap_or_else(|_| "/verif/.build/scratch/c17".to_string());
    date_cases(&mut sink);
    if let Ok(bin) = std::env::var("SGVERIF_BIN") {
        preset_cases(&mut sink, &bin, &scratch);
        init_cases(&mut sink, &bin, &scratch);
        other_numeric_cases(&mut sink, &bin, &scratch);
        for _ in 0..tier.scale(60, 400) {
            let mut r = rng.fork();
            toml_level_case(&mut sink, &mut r, &bin, &scratch);
        }
        for _ in 0..tier.scale(500, 8000) {
            let mut r = rng.fork();
            gate_case(&mut sink, &mut r, &bin, &scratch);
        }
    }
    sink.extra.insert("trivial_tag_prefixes".into(), serde_json::json!(["valid-base"]));
    crate::globfact::flush(&mut sink);
    sink.finish(out);
}
