//! C09 / C10 / C11 — histories of project edits interleaved with `check` runs on the real binary:
//! update-baseline in every mode, baseline checks with random flag sets, ratchet modes by flag
//! and by configuration, restricted runs (`--files`), fail-fast under several thread counts.
//!
//! Every step first obtains the *raw* results of the current project state (a plain full
//! `check --format json` without baseline) — the ground truth —, then runs the step command and
//! observes exit status, reported statuses and the baseline file before/after.  The model
//! (`baseline-step`) predicts all three from the raw results of the files that were processed.
use std::collections::{BTreeMap, BTreeSet};
use std::path::{Path, PathBuf};

use super::Tier;
use crate::proto::{Case, Sink, b, enc};
use crate::rng::Rng;

#[derive(Clone, Debug, PartialEq, Eq)]
struct Res {
    path: String,
    status: String,
    kind: char,
    count: u64,
}

#[derive(Clone, Copy, PartialEq, Eq, Debug)]
pub enum Which {
    C09,
    C10,
    C11,
}

struct Proj {
    dir: PathBuf,
    bin: String,
}

// `.lib/e.rs` and `lib/e.rs` differ only by a leading dot: two files, two baseline keys
// `lib/b\s.rs`: a backslash is an ordinary character of a Unix file name; its baseline key is `lib/b/s.rs`
const FILES: &[&str] = &["src/a.rs", "src/b.rs", "src/c.rs", "src/sub/d.rs", "lib/e.rs", ".lib/e.rs", "lib/b\\s.rs"];

impl Proj {
    fn write_file(&self, rel: &str, lines: usize) {
        let p = self.dir.join(rel);
        std::fs::create_dir_all(p.parent().unwrap()).unwrap();
        let mut s = String::new();
        for i in 0..lines {
            s += &format!("let x{i} = {i};\n");
        }
        std::fs::write(p, s).unwrap();
    }
    fn run(&self, args: &[String], threads: usize) -> (i32, String, String) {
        let o = std::process::Command::new(&self.bin)
            .args(args)
            .current_dir(&self.dir)
            .env("RAYON_NUM_THREADS", threads.to_string())
            .env("NO_COLOR", "1")
            .output()
            .expect("run sloc-guard");
        (o.status.code().unwrap_or(-1), String::from_utf8_lossy(&o.stdout).into_owned(), String::from_utf8_lossy(&o.stderr).into_owned())
    }
    fn baseline(&self, rel: &str) -> Option<BTreeMap<String, (char, u64)>> {
        let text = std::fs::read_to_string(self.dir.join(rel)).ok()?;
        let v: serde_json::Value = serde_json::from_str(&text).ok()?;
        let mut m = BTreeMap::new();
        for (k, e) in v.get("files")?.as_object()? {
            let entry = if e.get("type").and_then(|t| t.as_str()) == Some("content") {
                ('c', e.get("lines").and_then(serde_json::Value::as_u64).unwrap_or(0))
            } else {
                let f = e.get("violation_type").and_then(|t| t.as_str()) == Some("files");
                (if f { 'f' } else { 'd' }, e.get("count").and_then(serde_json::Value::as_u64).unwrap_or(0))
            };
            m.insert(canon(k), entry);
        }
        Some(m)
    }
}

/// project-relative spelling (spelling itself is C08's subject)
fn canon(p: &str) -> String {
    let s = p.replace('\\', "/");
    let s = s.strip_prefix("./").unwrap_or(&s);
    if s.is_empty() { ".".to_string() } else { s.to_string() }
}

fn parse_results(out: &str) -> Option<Vec<Res>> {
    let v: serde_json::Value = serde_json::from_str(out).ok()?;
    let mut rs = vec![];
    for r in v.get("results")?.as_array()? {
        let path = canon(r.get("path")?.as_str()?);
        let status = r.get("status")?.as_str()?.to_string();
        let kind = match r.get("violation_category").and_then(|c| c.get("violation_type")).and_then(|t| t.get("type")).and_then(|t| t.as_str()) {
            None => 'c',
            Some("file_count") => 'f',
            Some("dir_count") => 'd',
            Some(_) => 'o',
        };
        let count = r.get("sloc").and_then(serde_json::Value::as_u64).unwrap_or(0);
        rs.push(Res { path, status, kind, count });
    }
    Some(rs)
}

fn show_results(rs: &[Res]) -> String {
    let mut items: Vec<String> = rs.iter().map(|r| format!("{}:{}:{}", enc(&r.path), r.kind, r.status)).collect();
    items.sort();
    if items.is_empty() { "-".to_string() } else { items.join(",") }
}

fn show_base(b: &Option<BTreeMap<String, (char, u64)>>) -> String {
    match b {
        None => "absent".to_string(),
        Some(m) => {
            let mut items: Vec<String> = m.iter().map(|(k, (c, n))| format!("{}={c}{n}", enc(k))).collect();
            items.sort();
            format!("{{{}}}", items.join(","))
        }
    }
}

fn write_config(p: &Proj, ratchet: Option<&str>, fail_fast: bool, wae: bool) {
    let mut t = String::from(
        "version = \"2\"\n[content]\nmax_lines = 5\nwarn_threshold = 0.8\nextensions = [\"rs\"]\n[structure]\nmax_files = 2\nmax_dirs = 1\nwarn_dirs_at = 0\n[[structure.rules]]\nscope = \"lib\"\nmax_files = 5\ndeny_extensions = [\".bak\"]\ndeny_files = [\"denied.rs\"]\n",
    );
    if let Some(r) = ratchet {
        t += &format!("[baseline]\nratchet = \"{r}\"\n");
    }
    if fail_fast || wae {
        t += "[check]\n";
        if fail_fast { t += "fail_fast = true\n"; }
        if wae { t += "warnings_as_errors = true\n"; }
    }
    std::fs::write(p.dir.join(".sloc-guard.toml"), t).unwrap();
}

#[derive(Clone)]
struct Step {
    /// scan root given on the command line (sub-path root), spelled like the scanner spells paths
    root: Option<&'static str>,
    given: bool,
    update: Option<&'static str>,
    ratchet: Option<&'static str>,
    ratchet_by_config: bool,
    warn_only: bool,
    wae: bool,
    files: Vec<&'static str>,
    fail_fast: bool,
    ff_by_config: bool,
    threads: usize,
}

fn gen_step(r: &mut Rng, which: Which) -> Step {
    let mut s = Step {
        root: None,
        given: r.chance(3, 4),
        update: None,
        ratchet: None,
        ratchet_by_config: r.chance(1, 3),
        warn_only: r.chance(1, 8),
        wae: r.chance(1, 4),
        files: vec![],
        fail_fast: false,
        ff_by_config: r.chance(1, 3),
        threads: *r.pick(&[1usize, 1, 2, 4, 8, 16]),
    };
    match which {
        Which::C09 => {
            if r.chance(1, 2) {
                s.update = Some(*r.pick(&["all", "all", "content", "structure", "new"]));
            }
            if r.chance(1, 6) {
                s.ratchet = Some(*r.pick(&["warn", "auto", "strict"]));
            }
            // "whatever other flags are given": fail-fast too
            // fail-fast together with an update as well: the rewritten baseline must still hold
            // every violation of the project state, not only those met before the stop
            s.fail_fast = r.chance(1, 4);
        }
        Which::C10 => {
            s.given = r.chance(9, 10);
            s.ratchet = Some(*r.pick(&["warn", "auto", "auto", "strict"]));
            if r.chance(1, 6) {
                s.update = Some(*r.pick(&["all", "new"]));
            }
            if r.chance(1, 3) {
                let n = r.range(1, 3);
                for _ in 0..n {
                    let f = *r.pick(FILES);
                    if !s.files.contains(&f) {
                        s.files.push(f);
                    }
                }
            }
            s.fail_fast = r.chance(1, 4);
            if s.files.is_empty() && r.chance(1, 4) {
                // a sub-directory, or a single file as the target (its directory is then not evaluated)
                s.root = Some(*r.pick(&["./src", "./src/sub", "./lib", "./src/a.rs", "./src/sub/d.rs"]));
            }
        }
        Which::C11 => {
            if r.chance(1, 4) {
                // seed / refresh the baseline so that later fail-fast runs meet grandfathered failures
                s.given = true;
                s.update = Some(*r.pick(&["all", "new", "content"]));
                return s;
            }
            s.given = r.chance(4, 5);
            s.fail_fast = true;
            if r.chance(1, 5) {
                s.ratchet = Some(*r.pick(&["warn", "auto", "strict"]));
            }
            if r.chance(1, 3) {
                // explicit file order = a schedule when run with one worker
                let mut fs: Vec<&'static str> = FILES.to_vec();
                for i in (1..fs.len()).rev() {
                    fs.swap(i, r.below(i + 1));
                }
                fs.truncate(r.range(2, FILES.len()));
                s.files = fs;
            }
        }
    }
    s
}

fn argv(s: &Step, bl: &str) -> Vec<String> {
    let mut a: Vec<String> = vec!["check".into(), "--format".into(), "json".into(), "--no-sloc-cache".into()];
    if s.given {
        a.push("--baseline".into());
        a.push(bl.into());
    }
    if let Some(m) = s.update {
        a.push(format!("--update-baseline={m}"));
    }
    if let (Some(m), false) = (s.ratchet, s.ratchet_by_config) {
        a.push(format!("--ratchet={m}"));
    }
    if s.warn_only { a.push("--warn-only".into()); }
    if s.fail_fast && !s.ff_by_config { a.push("--fail-fast".into()); }
    if let Some(root) = s.root {
        a.push(root.into());
    }
    if !s.files.is_empty() {
        a.push("--files".into());
        // same spelling as the scanner produces (path spelling is C08's subject)
        a.push(s.files.iter().map(|f| format!("./{f}")).collect::<Vec<_>>().join(","));
    }
    a
}

#[allow(clippy::too_many_lines)]
fn history(sink: &mut Sink, r: &mut Rng, which: Which, scratch: &str, bin: &str, steps: usize, script: &[(&[(&'static str, usize)], Step)]) {
    let dir = PathBuf::from(scratch).join(format!("b{}", sink.n));
    let _ = std::fs::remove_dir_all(&dir);
    std::fs::create_dir_all(&dir).unwrap();
    let p = Proj { dir: dir.clone(), bin: bin.to_string() };
    // initial state: some files over the limit (6+ lines), some at the warn point (4-5), some small
    for f in FILES {
        p.write_file(f, *r.pick(&[1usize, 3, 4, 5, 8, 12]));
    }
    let mut prev_auto: Option<(BTreeMap<String, (char, u64)>, String)> = None;
    for si in 0..steps {
        if !sink.want() {
            sink.skip();
            continue;
        }
        // 1. edit (scripted histories first write the files their step names)
        if let Some((edits, _)) = script.get(si) {
            for (f, n) in edits.iter() {
                p.write_file(f, *n);
            }
        } else { match r.below(10) {
            0 => p.write_file(*r.pick(FILES), *r.pick(&[1usize, 4, 5, 9, 14])),
            1 => { let _ = std::fs::remove_file(p.dir.join(*r.pick(FILES))); }
            2 => p.write_file(&format!("src/extra{}.rs", r.below(3)), *r.pick(&[1usize, 7])),
            3 => { let _ = std::fs::remove_file(p.dir.join(format!("src/extra{}.rs", r.below(3)))); }
            4 => p.write_file("lib/old.bak", 2),
            // a file the placement rules forbid, sometimes over the line limit as well: one path
            // then carries a violation the baseline can record and one it cannot
            5 => p.write_file("lib/denied.rs", *r.pick(&[2usize, 9, 9])),
            6 | 7 => { let _ = std::fs::remove_file(p.dir.join("lib/denied.rs")); }
            _ => {}
        } }
        let step = match script.get(si) { Some((_, st)) => st.clone(), None => gen_step(r, which) };
        let bl = if step.given { "bl.json" } else { ".sloc-guard-baseline.json" };
        // 2. ground truth for this state (same configuration, but never fail-fast, no ratchet)
        write_config(&p, None, false, step.wae);
        let (_, raw_out, _) = p.run(&["check".into(), "--format".into(), "json".into(), "--no-sloc-cache".into()], 1);
        write_config(&p, if step.ratchet_by_config { step.ratchet } else { None }, step.fail_fast && step.ff_by_config, step.wae);
        let Some(raw) = parse_results(&raw_out) else {
            sink.push(Case { request: "noop".into(), implementation: "-".into(), pred: "FAIL raw check produced no JSON".into(), tag: "error".into() });
            continue;
        };
        let before = p.baseline(bl);
        let before_raw = std::fs::read(p.dir.join(bl)).ok();
        // 3. the step itself
        let args = argv(&step, bl);
        let (rc, out, err) = p.run(&args, step.threads);
        let after = p.baseline(bl);
        let after_raw = std::fs::read(p.dir.join(bl)).ok();
        let observed = parse_results(&out);
        let mut pred: Option<String> = None;
        if err.contains("panicked at") {
            pred = Some("panic".to_string());
        }
        // which raw results belong to this run: structure results unless --files; content results of
        // the files that were processed (fail-fast may skip some)
        let reported: BTreeSet<(String, char)> = observed.as_ref().map(|o| o.iter().map(|x| (x.path.clone(), x.kind)).collect()).unwrap_or_default();
        let listed: BTreeSet<String> = step.files.iter().map(|f| canon(f)).collect();
        let under_root = |p: &str| -> bool {
            step.root.is_none_or(|rt| { let rt = canon(rt); p == rt || p.starts_with(&format!("{rt}/")) })
        };
        let in_scope = |x: &Res| -> bool {
            if step.files.is_empty() { under_root(&x.path) } else { x.kind == 'c' && listed.contains(&x.path) }
        };
        let candidates: Vec<Res> = raw.iter().filter(|x| in_scope(x)).cloned().collect();
        let processed: Vec<Res> = candidates.iter().filter(|x| x.kind != 'c' || reported.contains(&(x.path.clone(), 'c'))).cloned().collect();
        let evaluated: BTreeSet<String> = if step.files.is_empty() {
            // full scan: every result path and every scanned directory (all dirs have stats)
            let mut e: BTreeSet<String> = processed.iter().map(|x| x.path.clone()).collect();
            for d in [".", "src", "src/sub", "lib"] {
                if p.dir.join(d).is_dir() && under_root(d) {
                    e.insert(d.to_string());
                }
            }
            e
        } else {
            processed.iter().map(|x| x.path.clone()).collect()
        };
        // fail-fast admissibility: content files may be missing only if a processed one triggers
        let loaded = if step.given { before.clone() } else { None };
        let triggers = |x: &Res| x.status == "failed" && !loaded.as_ref().is_some_and(|bm| bm.contains_key(&x.path));
        let skipped: Vec<&Res> = candidates.iter().filter(|x| x.kind == 'c' && !reported.contains(&(x.path.clone(), 'c'))).collect();
        if rc != 2 && !skipped.is_empty() {
            if !step.fail_fast {
                pred = Some(format!("{} in-scope file(s) missing from the results without fail-fast", skipped.len()));
            } else if !processed.iter().any(|x| x.kind == 'c' && triggers(x)) {
                pred = Some("fail-fast skipped files although no processed file is an un-grandfathered failure".to_string());
            }
        }
        // ---------------- property predicates on the implementation
        if pred.is_none() && rc != 2 {
            if let Some(obs) = &observed {
                let status_of = |path: &str, kind: char| obs.iter().find(|x| x.path == path && x.kind == kind).map(|x| x.status.clone());
                // C09 non-masking
                for x in &processed {
                    if x.status == "failed" && !loaded.as_ref().is_some_and(|bm| bm.contains_key(&x.path)) {
                        if status_of(&x.path, x.kind).as_deref() != Some("failed") {
                            pred = Some(format!("violation at {} is not in the baseline but is reported {:?}", x.path, status_of(&x.path, x.kind)));
                        } else if !step.warn_only && rc != 1 {
                            pred = Some(format!("un-grandfathered violation at {} but exit {rc}", x.path));
                        }
                    }
                }
                // C09: a violation of a kind the baseline cannot record is never grandfathered,
                // whatever entry its path has
                for x in &processed {
                    if x.status == "failed" && x.kind == 'o' && pred.is_none() {
                        if status_of(&x.path, 'o').as_deref() != Some("failed") {
                            pred = Some(format!("the {} violation at {} (a kind no baseline entry records) is reported {:?}", "placement / depth", x.path, status_of(&x.path, 'o')));
                        } else if !step.warn_only && rc != 1 {
                            pred = Some(format!("unrecordable violation at {} but exit {rc}", x.path));
                        }
                    }
                }
                // C10: without --update-baseline the baseline only shrinks, entries are not rewritten,
                // and only evaluated, no-longer-violating paths disappear
                if step.update.is_none() {
                    match (&before, &after) {
                        (Some(bm), Some(am)) => {
                            for (k, v) in am {
                                if bm.get(k) != Some(v) {
                                    pred = Some(format!("baseline entry {k} added or rewritten without --update-baseline"));
                                }
                            }
                            for k in bm.keys() {
                                if !am.contains_key(k) {
                                    let still = processed.iter().any(|x| &x.path == k && x.status == "failed");
                                    if !evaluated.contains(k) {
                                        pred = Some(format!("baseline entry {k} removed although its path was not evaluated in this run"));
                                    } else if still {
                                        pred = Some(format!("baseline entry {k} removed although it still violates"));
                                    } else if step.ratchet != Some("auto") {
                                        pred = Some(format!("baseline entry {k} removed without --ratchet=auto"));
                                    }
                                }
                            }
                        }
                        (None, Some(_)) => pred = Some("baseline file created without --update-baseline".to_string()),
                        (Some(_), None) => pred = Some("baseline file vanished".to_string()),
                        (None, None) => {}
                    }
                    // strict failure only for evaluated stale entries
                    if step.ratchet == Some("strict") && !step.warn_only && rc == 1 {
                        let other_failure = obs.iter().any(|x| x.status == "failed") || (step.wae && obs.iter().any(|x| x.status == "warning"));
                        if !other_failure {
                            let real_stale = loaded.as_ref().is_some_and(|bm| bm.keys().any(|k| evaluated.contains(k) && !processed.iter().any(|x| &x.path == k && x.status == "failed")));
                            if !real_stale {
                                pred = Some("strict ratchet failed although every stale-looking entry is unevaluated or still violating".to_string());
                            }
                        }
                    }
                }
                // C09: update modes
                if let (Some(mode), Some(am)) = (step.update, &after) {
                    let viol: Vec<&Res> = processed.iter().filter(|x| x.status == "failed" && x.kind != 'o').collect();
                    for x in &viol {
                        let wanted = match mode { "all" | "new" => true, "content" => x.kind == 'c', _ => x.kind != 'c' };
                        if wanted && !am.contains_key(&x.path) {
                            pred = Some(format!("--update-baseline={mode} did not record the violation at {}", x.path));
                        }
                    }
                    // an update describes the project state, however early a fail-fast run would stop
                    if matches!(mode, "all" | "new") && step.files.is_empty() && step.root.is_none() {
                        for x in candidates.iter().filter(|x| x.status == "failed" && x.kind != 'o') {
                            if !am.contains_key(&x.path) && pred.is_none() {
                                pred = Some(format!("--update-baseline={mode}{}: the violation at {} is missing from the rewritten baseline (the run stopped before it)", if step.fail_fast { " with fail-fast" } else { "" }, x.path));
                            }
                        }
                    }
                    // `new` never drops an existing entry of the file it rewrites — also when that file is
                    // the default baseline and was not named with --baseline (then it is not even loaded)
                    if mode == "new" && !step.given && which == Which::C09 {
                        if let Some(bm) = &before {
                            if bm.keys().any(|k| !am.contains_key(k)) {
                                pred = Some("key=update-new-without-baseline-flag --update-baseline=new without --baseline overwrote the default baseline file and dropped existing entries".to_string());
                            }
                        }
                    }
                    if let Some(lm) = &loaded {
                        for (k, v) in lm {
                            let keep = match mode { "new" => true, "content" => v.0 != 'c', "structure" => v.0 == 'c', _ => false };
                            // an evaluated entry that no longer violates may be removed by `--ratchet auto` in the same run (C10)
                            let tightened = step.ratchet == Some("auto") && evaluated.contains(k) && !processed.iter().any(|x| &x.path == k && x.status == "failed");
                            if keep && !am.contains_key(k) && !tightened {
                                pred = Some(format!("--update-baseline={mode} dropped the existing entry {k}"));
                            }
                        }
                    }
                }
            }
        }
        // C11: same command without fail-fast gives the same exit code
        if pred.is_none() && step.fail_fast && rc != 2 && which == Which::C11 {
            let mut s2 = Step { fail_fast: false, ..step_clone(&step) };
            s2.update = None;
            // restore the baseline file first if the step rewrote it
            restore(&p, bl, &before_raw);
            write_config(&p, if step.ratchet_by_config { step.ratchet } else { None }, false, step.wae);
            let (rc2, _, _) = p.run(&argv(&s2, bl), 1);
            restore(&p, bl, &after_raw);
            if step.update.is_none() && rc2 != rc {
                pred = Some(format!("exit {rc} with fail-fast ({} threads) but {rc2} without", step.threads));
            }
        }
        // C10: after an auto tightening a rerun on the same state finds nothing stale
        if pred.is_none() && which == Which::C10 && step.ratchet == Some("auto") && step.update.is_none() && rc != 2 && step.given {
            let (_, _, err2) = p.run(&args, 1);
            let after2 = p.baseline(bl);
            if after2 != after || err2.contains("Baseline tightened") {
                pred = Some("a rerun after --ratchet=auto tightened the baseline again".to_string());
            }
        }
        let _ = &mut prev_auto;
        // ---------------- C09 probes on the unchanged state right after a whole update
        if which == Which::C09 && pred.is_none() && rc != 2 && step.root.is_none() && step.files.is_empty() && matches!(step.update, Some("all") | Some("new")) {
            write_config(&p, None, false, false);
            // round trip: a baseline check of the unchanged state reports every recordable violation as grandfathered
            let (_, pout, _) = p.run(&["check".into(), "--format".into(), "json".into(), "--no-sloc-cache".into(), "--baseline".into(), bl.into()], 1);
            if let Some(pr) = parse_results(&pout) {
                if let Some(x) = pr.iter().find(|x| x.status == "failed" && x.kind != 'o') {
                    pred = Some(format!("round trip: after --update-baseline={} a baseline check of the unchanged state reports the {} violation at {} as failed", step.update.unwrap_or("-"), match x.kind { 'c' => "line-count", 'f' => "file-count", _ => "sub-directory-count" }, x.path));
                }
            }
            // idempotence: an update of the unchanged state from scratch yields the same entries
            if step.update == Some("all") && pred.is_none() {
                let probe = format!("../probe-{}.json", std::process::id());
                let _ = std::fs::remove_file(p.dir.join(&probe));
                let _ = p.run(&["check".into(), "--format".into(), "json".into(), "--no-sloc-cache".into(), "--baseline".into(), probe.clone(), "--update-baseline=all".into()], 1);
                let fresh = p.baseline(&probe);
                let _ = std::fs::remove_file(p.dir.join(&probe));
                if fresh.is_some() && fresh != after {
                    let (f, a) = (fresh.unwrap_or_default(), after.clone().unwrap_or_default());
                    let k = f.keys().chain(a.keys()).find(|k| f.get(*k) != a.get(*k)).cloned().unwrap_or_default();
                    pred = Some(format!("idempotence: updating the unchanged state without the existing baseline gives another entry for {k}: {:?} (fresh) vs {:?} (updated with the baseline loaded)", f.get(&k), a.get(&k)));
                }
            }
            write_config(&p, if step.ratchet_by_config { step.ratchet } else { None }, step.fail_fast && step.ff_by_config, step.wae);
        }
        // ---------------- model request
        let upd = step.update.unwrap_or("-");
        let rat = step.ratchet.unwrap_or("-");
        let mut req = format!("baseline-step {} {} {} {} {}", b(step.given), upd, rat, b(step.warn_only), b(step.wae));
        match &before {
            None => req += " absent",
            Some(m) => {
                req += &format!(" {}", m.len());
                for (k, (c, n)) in m {
                    req += &format!(" {} {c} {n}", enc(k));
                }
            }
        }
        req += &format!(" {}", processed.len());
        for x in &processed {
            req += &format!(" {} {} {} {}", enc(&x.path), x.status, x.kind, x.count);
        }
        req += &format!(" {}", evaluated.len());
        for e in &evaluated {
            req += &format!(" {}", enc(e));
        }
        let stale_line = {
            // the tool names stale paths on stderr (warn / strict) — not compared; `-` = unobserved
            String::new()
        };
        let _ = stale_line;
        let implementation = if rc == 2 {
            "config-error".to_string()
        } else {
            format!("exit={rc} results={} disk={} -", observed.as_ref().map_or_else(|| "?".to_string(), |o| show_results(o)), show_base(&after))
        };
        let shape = format!(
            "{}{}{}{}{}",
            step.update.map_or(String::new(), |m| format!("+upd-{m}")), step.ratchet.map_or(String::new(), |m| format!("+rat-{m}")),
            if step.fail_fast { "+ff" } else { "" }, if step.files.is_empty() { if step.root.is_some() { "+subroot" } else { "" } } else { "+files" }, if step.given { "+bl" } else { "" }
        );
        sink.push(Case {
            request: req,
            implementation,
            pred: pred.map_or_else(|| "ok".to_string(), |p| format!("FAIL {p}")),
            tag: format!("{:?}/{}/exit{rc}", which, if shape.is_empty() { "plain".to_string() } else { shape }),
        });
    }
    let _ = std::fs::remove_dir_all(&dir);
}

fn step_clone(s: &Step) -> Step {
    Step { root: s.root, given: s.given, update: s.update, ratchet: s.ratchet, ratchet_by_config: s.ratchet_by_config, warn_only: s.warn_only, wae: s.wae, files: s.files.clone(), fail_fast: s.fail_fast, ff_by_config: s.ff_by_config, threads: s.threads }
}

fn restore(p: &Proj, rel: &str, state: &Option<Vec<u8>>) {
    let path = p.dir.join(rel);
    match state {
        None => { let _ = std::fs::remove_file(path); }
        Some(bytes) => std::fs::write(path, bytes).unwrap(),
    }
}

/// One baseline file, runs started at the project root and in a sub-directory of it (which names
/// the project's configuration with `--config`; configurations are not discovered upwards): a key
/// names a path of the project, so a file of the sub-directory never answers for (or retires the
/// entry of) the root's file of the same relative name.
fn subdir_case(sink: &mut Sink, scratch: &str, bin: &str) {
    if !sink.want() {
        sink.skip();
        return;
    }
    let dir = PathBuf::from(scratch).join(format!("sub{}", sink.n));
    let _ = std::fs::remove_dir_all(&dir);
    std::fs::create_dir_all(dir.join("src")).unwrap();
    let p = Proj { dir: dir.clone(), bin: bin.to_string() };
    std::fs::write(dir.join(".sloc-guard.toml"), "version = \"2\"\n[content]\nmax_lines = 5\nextensions = [\"rs\"]\n").unwrap();
    p.write_file("a.rs", 30);
    p.write_file("src/a.rs", 1);
    p.write_file("src/big.rs", 9);
    let run_in = |sub: &str, args: &[&str]| -> (i32, String) {
        let o = std::process::Command::new(bin).args(args).current_dir(dir.join(sub)).env("NO_COLOR", "1").output().expect("run sloc-guard");
        (o.status.code().unwrap_or(-1), String::from_utf8_lossy(&o.stdout).into_owned())
    };
    let mut problems: Vec<String> = vec![];
    run_in("", &["check", "--no-sloc-cache", "--baseline", "bl.json", "--update-baseline=all"]);
    let b0 = p.baseline("bl.json").unwrap_or_default();
    if !(b0.contains_key("a.rs") && b0.contains_key("src/big.rs")) {
        problems.push(format!("the whole-project update recorded {:?}", b0.keys().collect::<Vec<_>>()));
    }
    // a ratchet run started in src/: the root's a.rs is not evaluated, src/big.rs still violates
    run_in("src", &["check", ".", "--no-sloc-cache", "--config", "../.sloc-guard.toml", "--baseline", "../bl.json", "--ratchet=auto"]);
    let b1 = p.baseline("bl.json").unwrap_or_default();
    if b1 != b0 {
        problems.push(format!("`check . --ratchet=auto` started in src/ changed the baseline from {:?} to {:?} (src/a.rs passes, the root's a.rs was not looked at)", b0.keys().collect::<Vec<_>>(), b1.keys().collect::<Vec<_>>()));
    }
    let (rc, _) = run_in("", &["check", "--no-sloc-cache", "--baseline", "bl.json"]);
    if rc != 0 {
        problems.push(format!("after the run in src/ the whole-project check with the same baseline exits {rc}"));
    }
    // in src/ the recorded violation is honoured under its project-relative key …
    let (_, out) = run_in("src", &["check", ".", "--no-sloc-cache", "--config", "../.sloc-guard.toml", "--baseline", "../bl.json", "--format", "json"]);
    if let Some(rs) = parse_results(&out) {
        if let Some(x) = rs.iter().find(|x| x.path.ends_with("big.rs")) {
            if x.status != "grandfathered" {
                problems.push(format!("started in src/, the recorded violation of src/big.rs is reported {}", x.status));
            }
        }
    }
    // … and retired by a ratchet run in src/ once it is resolved, the root's entry staying
    p.write_file("src/big.rs", 1);
    run_in("src", &["check", ".", "--no-sloc-cache", "--config", "../.sloc-guard.toml", "--baseline", "../bl.json", "--ratchet=auto"]);
    let b2 = p.baseline("bl.json").unwrap_or_default();
    if b2.contains_key("src/big.rs") || !b2.contains_key("a.rs") {
        problems.push(format!("after src/big.rs was resolved, the ratchet run in src/ left {:?}", b2.keys().collect::<Vec<_>>()));
    }
    // a baseline written from the sub-directory is honoured by the whole-project run
    p.write_file("src/c.rs", 9);
    run_in("src", &["check", ".", "--no-sloc-cache", "--config", "../.sloc-guard.toml", "--baseline", "../bl2.json", "--update-baseline=all"]);
    let b3 = p.baseline("bl2.json").unwrap_or_default();
    if !b3.contains_key("src/c.rs") {
        problems.push(format!("an update started in src/ recorded {:?} for src/c.rs", b3.keys().collect::<Vec<_>>()));
    }
    let _ = std::fs::remove_dir_all(&dir);
    sink.push(Case { request: "noop".into(), implementation: "-".into(), pred: if problems.is_empty() { "ok".into() } else { format!("FAIL {}", problems.join("; ")) }, tag: "C10/started-below-root".into() });
}

pub fn run(which: Which, tier: Tier, seed: u64, out: &str) {
    let mut sink = Sink::create(out);
    let mut r = Rng::new(seed ^ (which as u64) << 40);
    if let Ok(bin) = std::env::var("SGVERIF_BIN") {
        let scratch = std::env::var("SGVERIF_SCRATCH").unwrap_or_else(|_| "/verif/.build/scratch/bh".to_string());
        if which == Which::C09 {
            let plain = Step { root: None, given: true, update: None, ratchet: None, ratchet_by_config: false, warn_only: false, wae: false, files: vec![], fail_fast: false, ff_by_config: false, threads: 1 };
            // `--update-baseline new` on the default baseline file that an earlier run wrote (known finding)
            let s1 = Step { given: false, update: Some("all"), ..plain.clone() };
            let s2 = Step { given: false, update: Some("new"), ..plain.clone() };
            history(&mut sink, &mut r.fork(), which, &scratch, &bin, 2, &[(&[("src/a.rs", 12), ("src/b.rs", 12)], s1), (&[("src/b.rs", 1)], s2)]);
            // a denied file whose line-count violation is recorded: the placement violation stays failed
            let t1 = Step { update: Some("all"), ..plain.clone() };
            history(&mut sink, &mut r.fork(), which, &scratch, &bin, 3, &[(&[("lib/denied.rs", 9)], t1), (&[], plain.clone()), (&[], Step { fail_fast: true, ..plain.clone() })]);
        }
        if which == Which::C10 {
            subdir_case(&mut sink, &scratch, &bin);
        }
        if which == Which::C11 {
            let plain = Step { root: None, given: true, update: None, ratchet: None, ratchet_by_config: false, warn_only: false, wae: false, files: vec![], fail_fast: false, ff_by_config: false, threads: 1 };
            // a recorded file that has grown since, then a failure nobody recorded: fail-fast (flag
            // and configuration, one worker, files in this order) must still end at the real failure
            for by_config in [false, true] {
                let s1 = Step { update: Some("all"), ..plain.clone() };
                let s2 = Step { fail_fast: true, ff_by_config: by_config, files: vec!["src/a.rs", "src/b.rs", "src/c.rs"], ..plain.clone() };
                let s3 = Step { fail_fast: true, ff_by_config: by_config, ..plain.clone() };
                history(&mut sink, &mut r.fork(), which, &scratch, &bin, 3, &[(&[("src/a.rs", 8), ("src/b.rs", 2), ("src/c.rs", 2), ("src/sub/d.rs", 2), ("lib/e.rs", 2), (".lib/e.rs", 2), ("lib/b\\s.rs", 2)], s1), (&[("src/a.rs", 12), ("src/b.rs", 9)], s2), (&[], s3)]);
            }
        }
        for _ in 0..tier.scale(100, 3_000) {
            history(&mut sink, &mut r, which, &scratch, &bin, 8, &[]);
        }
    }
    sink.extra.insert("trivial_tag_prefixes".into(), serde_json::json!([format!("{which:?}/plain")]));
    sink.finish(out);
}

#[allow(dead_code)]
fn unused(_: &Path) {}
