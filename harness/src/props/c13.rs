//! C13 — state files survive a crash at any point of a save.
//!
//! Fault enumeration on the real binary (built with the `verif` feature): every instrumented point
//! of the save protocol × every prior state of the target (absent, valid, valid and large, a symbolic link to a valid file) × each
//! of the three file kinds.  The process is aborted at the point (`SLOC_GUARD_VERIF_CRASH`), the
//! bytes under the target and temp names are recorded, and then every command that reads the file
//! is run.  The space is finite and enumerated completely.
use std::path::{Path, PathBuf};

use super::Tier;
use crate::proto::{Case, Sink, b};

pub const POINTS: &[&str] = &[
    "save.start", "save.dir-ready", "save.temp-created", "save.mid-write", "save.written", "save.flushed", "save.synced",
    "save.lock-opened", "save.locked", "save.renamed", "save.unlocked",
];

#[derive(Clone, Copy, PartialEq, Eq, Debug)]
enum Kind {
    Baseline,
    History,
    Cache,
    /// the history at a place chosen with `--history-file`
    HistoryCustom,
}

#[derive(Clone, Copy, PartialEq, Eq, Debug)]
enum Prior {
    Absent,
    Valid,
    Large,
    /// a valid file kept elsewhere, the state file's name is a symbolic link to it
    Symlink,
}

struct Proj {
    dir: PathBuf,
    bin: String,
}

impl Proj {
    fn run(&self, args: &[&str], env: &[(&str, &str)]) -> (i32, String, String) {
        let mut c = std::process::Command::new(&self.bin);
        c.args(args).current_dir(&self.dir).env("NO_COLOR", "1").env("SLOC_GUARD_VERIF_NOW", "1700000000");
        for (k, v) in env {
            c.env(k, v);
        }
        let o = c.output().expect("run sloc-guard");
        (o.status.code().unwrap_or(-1), String::from_utf8_lossy(&o.stdout).into_owned(), String::from_utf8_lossy(&o.stderr).into_owned())
    }
}

fn set_mtime(path: &Path, secs: u64) {
    if let Ok(f) = std::fs::OpenOptions::new().write(true).open(path) {
        let _ = f.set_modified(std::time::UNIX_EPOCH + std::time::Duration::from_secs(secs));
    }
}

fn setup(dir: &Path, nfiles: usize) {
    let _ = std::fs::remove_dir_all(dir);
    std::fs::create_dir_all(dir.join("src")).unwrap();
    for i in 0..nfiles {
        let mut s = String::new();
        for j in 0..8 + (i % 5) {
            s += &format!("let v{j} = {j};\n");
        }
        let f = dir.join("src").join(format!("f{i}.rs"));
        std::fs::write(&f, s).unwrap();
        set_mtime(&f, 1_600_000_000);
    }
    std::fs::write(dir.join(".sloc-guard.toml"), "version = \"2\"\n[content]\nmax_lines = 5\nextensions = [\"rs\"]\n").unwrap();
}

fn target_of(kind: Kind, dir: &Path) -> PathBuf {
    match kind {
        Kind::Baseline => dir.join("bl.json"),
        Kind::History => dir.join(".sloc-guard/history.json"),
        Kind::Cache => dir.join(".sloc-guard/cache.json"),
        Kind::HistoryCustom => dir.join("custom/h.json"),
    }
}

fn save_cmd(kind: Kind) -> Vec<&'static str> {
    match kind {
        Kind::Baseline => vec!["check", "--no-sloc-cache", "--update-baseline", "--baseline", "bl.json", "--quiet"],
        Kind::History => vec!["snapshot", "--no-sloc-cache", "--quiet"],
        Kind::Cache => vec!["check", "--quiet"],
        Kind::HistoryCustom => vec!["snapshot", "--no-sloc-cache", "--quiet", "--history-file", "custom/h.json"],
    }
}

fn file_name(kind: Kind) -> &'static str {
    match kind {
        Kind::Baseline => "bl.json",
        Kind::History => "history.json",
        Kind::Cache => "cache.json",
        Kind::HistoryCustom => "h.json",
    }
}

/// same bytes, or the same JSON document (maps are serialised in hash order, which differs
/// between two processes)
fn same_content(a: &[u8], b: &[u8]) -> bool {
    if a == b {
        return true;
    }
    match (serde_json::from_slice::<serde_json::Value>(a), serde_json::from_slice::<serde_json::Value>(b)) {
        (Ok(x), Ok(y)) => x == y,
        _ => false,
    }
}

fn temp_state(dir: &Path, kind: Kind, new: &[u8]) -> String {
    let t = target_of(kind, dir);
    let parent = t.parent().unwrap();
    let prefix = format!(".{}.tmp.", file_name(kind));
    let mut state = "none".to_string();
    if let Ok(rd) = std::fs::read_dir(parent) {
        for e in rd.flatten() {
            if e.file_name().to_string_lossy().starts_with(&prefix) {
                let bytes = std::fs::read(e.path()).unwrap_or_default();
                state = if bytes.is_empty() { "empty".into() } else if same_content(&bytes, new) { "full".into() } else { "partial".into() };
            }
        }
    }
    state
}

/// prepare the prior state; returns the prior bytes (None = absent)
fn prepare(p: &Proj, kind: Kind, prior: Prior) -> Option<Vec<u8>> {
    let n = if prior == Prior::Large { 60 } else { 3 };
    setup(&p.dir, n);
    if prior == Prior::Absent {
        return None;
    }
    // a complete earlier save
    let (rc, _, err) = p.run(&save_cmd(kind), &[]);
    assert!(rc != 101 && !err.contains("panicked"), "prior save failed: {err}");
    // change the project so that the next save writes different content
    std::fs::write(p.dir.join("src/extra.rs"), "let a = 1;\nlet b = 2;\nlet c = 3;\nlet d = 4;\nlet e = 5;\nlet f = 6;\nlet g = 7;\n").unwrap();
    set_mtime(&p.dir.join("src/extra.rs"), 1_600_000_100);
    if prior == Prior::Symlink {
        let t = target_of(kind, &p.dir);
        let store = p.dir.join("elsewhere.json");
        std::fs::rename(&t, &store).unwrap();
        std::os::unix::fs::symlink(&store, &t).unwrap();
    }
    std::fs::read(target_of(kind, &p.dir)).ok()
}

fn one(sink: &mut Sink, scratch: &str, bin: &str, kind: Kind, prior: Prior, point: &str) {
    if !sink.want() {
        sink.skip();
        return;
    }
    let dir = PathBuf::from(scratch).join(format!("c{}", sink.n));
    let p = Proj { dir: dir.clone(), bin: bin.to_string() };
    // reference: the same save without a crash, on an identical copy
    let prior_bytes = prepare(&p, kind, prior);
    let (_, _, _) = p.run(&save_cmd(kind), &[]);
    let new_bytes = std::fs::read(target_of(kind, &dir)).unwrap_or_default();
    // the crashing run
    let prior_bytes2 = prepare(&p, kind, prior);
    let mut pred: Option<String> = None;
    if prior_bytes2.is_some() != prior_bytes.is_some() || !same_content(prior_bytes2.as_deref().unwrap_or(b""), prior_bytes.as_deref().unwrap_or(b"")) {
        pred = Some("test setup is not deterministic".to_string());
    }
    let (rc, _, err) = p.run(&save_cmd(kind), &[("SLOC_GUARD_VERIF_CRASH", point), ("SLOC_GUARD_VERIF_CRASH_FILE", file_name(kind))]);
    let crashed = rc == -1 || rc == 134; // killed by SIGABRT
    if !crashed {
        pred = Some(format!("the process did not abort at {point} (exit {rc}): {}", err.lines().next().unwrap_or("")));
    }
    let after = std::fs::read(target_of(kind, &dir)).ok();
    let target = match (&after, &prior_bytes) {
        (None, _) => "absent",
        (Some(a), Some(_)) if same_content(a, prior_bytes2.as_deref().unwrap_or(b"")) => "prior",
        (Some(a), _) if same_content(a, &new_bytes) => "new",
        (Some(a), _) if a.is_empty() => "empty",
        _ => "partial",
    };
    // at `save.written` the bytes sit in the BufWriter: any prefix may have reached the file
    let temp = if point == "save.written" { "any".to_string() } else { temp_state(&dir, kind, &new_bytes) };
    if pred.is_none() {
        let ok = match (&prior_bytes, target) {
            (None, "absent" | "new") => true,
            (Some(_), "prior" | "new") => true,
            _ => false,
        };
        if !ok {
            pred = Some(format!("after a crash at {point} the {kind:?} file is {target} (prior state {prior:?})"));
        }
    }
    // every command that reads the file must load it without error
    if pred.is_none() {
        let follow: Vec<Vec<&str>> = match kind {
            Kind::Baseline => vec![vec!["check", "--no-sloc-cache", "--baseline", "bl.json", "--quiet"], vec!["check", "--no-sloc-cache", "--update-baseline", "--baseline", "bl.json", "--quiet"]],
            Kind::History => vec![vec!["stats", "trend", "--no-sloc-cache"], vec!["stats", "history"], vec!["snapshot", "--no-sloc-cache", "--force", "--quiet"]],
            Kind::Cache => vec![vec!["check", "--quiet"], vec!["stats", "summary"], vec!["snapshot", "--quiet", "--dry-run"]],
            Kind::HistoryCustom => vec![vec!["stats", "trend", "--no-sloc-cache", "--history-file", "custom/h.json"], vec!["stats", "history", "--history-file", "custom/h.json"], vec!["snapshot", "--no-sloc-cache", "--force", "--quiet", "--history-file", "custom/h.json"]],
        };
        let entries_before = after.as_ref().map(|a| a.len());
        for f in follow {
            // `check --baseline` on an absent baseline is a usage error by design
            if kind == Kind::Baseline && after.is_none() && !f.contains(&"--update-baseline") {
                continue;
            }
            let (rc, _, err) = p.run(&f, &[]);
            if rc == 2 || rc == 101 || err.contains("panicked") {
                pred = Some(format!("after a crash at {point}, `{}` fails (exit {rc}): {}", f.join(" "), err.lines().next().unwrap_or("")));
                break;
            }
        }
        let _ = entries_before;
    }
    let _ = std::fs::remove_dir_all(&dir);
    sink.push(Case {
        request: format!("save-crash {} {} {}", b(prior_bytes.is_some()), point, new_bytes.len().max(2)),
        implementation: format!("target={target} temp={temp}"),
        pred: pred.map_or_else(|| "ok".to_string(), |p| format!("FAIL {p}")),
        tag: format!("{kind:?}/{prior:?}/{point}"),
    });
}

/// A temporary file with the very name the next save will use is already there (left by a
/// killed save of a process that had the same pid — pid 1 in a container, every run) and is
/// longer than the new content.  The save must still leave exactly the new content.
fn stale_temp_case(sink: &mut Sink, scratch: &str, bin: &str, kind: Kind) {
    if !sink.want() {
        sink.skip();
        return;
    }
    let dir = PathBuf::from(scratch).join(format!("c{}", sink.n));
    let p = Proj { dir: dir.clone(), bin: bin.to_string() };
    let _ = prepare(&p, kind, Prior::Valid);
    let (_, _, _) = p.run(&save_cmd(kind), &[]);
    let new_bytes = std::fs::read(target_of(kind, &dir)).unwrap_or_default();
    let _ = prepare(&p, kind, Prior::Valid);
    // stale temporaries for every pid the next process can plausibly get
    // (pids are handed out in sequence: a probe process tells where the sequence stands)
    let probe = std::process::Command::new("true").spawn().map(|mut c| { let id = c.id(); let _ = c.wait(); id }).unwrap_or_else(|_| std::process::id());
    let pid_max: u32 = std::fs::read_to_string("/proc/sys/kernel/pid_max").ok().and_then(|t| t.trim().parse().ok()).unwrap_or(32768);
    let parent = target_of(kind, &dir).parent().unwrap().to_path_buf();
    std::fs::create_dir_all(&parent).unwrap();
    let junk = "x".repeat(new_bytes.len() + 4096);
    let pids: Vec<u32> = (1..=800u32).map(|i| (probe + i) % pid_max).collect();
    for pid in &pids {
        std::fs::write(parent.join(format!(".{}.tmp.{pid}", file_name(kind))), &junk).unwrap();
    }
    // and under the plain names a save could use instead of a per-process one
    for name in [format!(".{}.tmp", file_name(kind)), format!("{}.tmp", file_name(kind)), format!(".{}.tmp.0", file_name(kind))] {
        std::fs::write(parent.join(name), &junk).unwrap();
    }
    let child = std::process::Command::new(bin).args(save_cmd(kind)).current_dir(&dir).env("NO_COLOR", "1").env("SLOC_GUARD_VERIF_NOW", "1700000000").stdout(std::process::Stdio::null()).stderr(std::process::Stdio::null()).spawn().expect("run sloc-guard");
    let covered = pids.contains(&child.id());
    let _ = child.wait_with_output();
    let after = std::fs::read(target_of(kind, &dir)).unwrap_or_default();
    // (junk under a name the save does not use is harmless; under a name it does use, the save
    // must still publish exactly the new content)
    let pred = if !same_content(&after, &new_bytes) {
        Some(format!("a stale temporary file with the save's own name was there: the {kind:?} file now holds {} bytes{} instead of the {} bytes of the new content", after.len(), if serde_json::from_slice::<serde_json::Value>(&after).is_err() { " that do not parse" } else { "" }, new_bytes.len()))
    } else {
        None
    };
    let _ = std::fs::remove_dir_all(&dir);
    sink.push(Case { request: "noop".into(), implementation: "-".into(), pred: pred.map_or_else(|| "ok".to_string(), |p| format!("FAIL {p}")), tag: format!("{kind:?}/stale-temp/{}", if covered { "same-name" } else { "pid-out-of-range" }) });
}

pub fn run(_tier: Tier, _seed: u64, out: &str) {
    let mut sink = Sink::create(out);
    if let Ok(bin) = std::env::var("SGVERIF_BIN") {
        let scratch = std::env::var("SGVERIF_SCRATCH").unwrap_or_else(|_| "/verif/.build/scratch/c13".to_string());
        for kind in [Kind::Baseline, Kind::History, Kind::Cache, Kind::HistoryCustom] {
            for prior in [Prior::Absent, Prior::Valid, Prior::Large, Prior::Symlink] {
                for point in POINTS {
                    one(&mut sink, &scratch, &bin, kind, prior, point);
                }
            }
        }
    }
    if let Ok(bin) = std::env::var("SGVERIF_BIN") {
        let scratch = std::env::var("SGVERIF_SCRATCH").unwrap_or_else(|_| "/verif/.build/scratch/c13".to_string());
        for kind in [Kind::Baseline, Kind::History] {
            stale_temp_case(&mut sink, &scratch, &bin, kind);
        }
    }
    sink.extra.insert("exhaustive".into(), serde_json::json!(true));
    sink.extra.insert("trivial_tag_prefixes".into(), serde_json::json!([]));
    sink.finish(out);
}
