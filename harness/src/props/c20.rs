//! C20 — reports are consistent, well-formed and deterministic.
//!
//! In-process: result vectors with hostile paths and reasons (markup, quotes, pipes, newlines,
//! non-UTF-8) go through the five real formatters; each output is parsed back and compared with the
//! model's summary and row selection and with each other; HTML is tokenised (balanced tags, no raw
//! payload), SARIF is checked against the 2.1.0 structural requirements.  `ProjectStatistics` is
//! rebuilt several times from the same files (fresh hash maps) and compared with the model's
//! breakdown; `LanguageRegistry::with_custom_languages` likewise.
//! End-to-end: projects with hostile file names run through every format, several times and with
//! several thread counts (byte-identical), with presentation flags (same statuses and exit code),
//! side-car files, and `stats` against `check`.
use std::collections::{BTreeMap, BTreeSet, HashMap};
use std::os::unix::ffi::OsStringExt;
use std::path::{Path, PathBuf};
use std::process::Command;

use sloc_guard::checker::{CheckResult, ViolationCategory, ViolationType};
use sloc_guard::config::CustomLanguageConfig;
use sloc_guard::counter::LineStats;
use sloc_guard::language::LanguageRegistry;
use sloc_guard::output::{ColorMode, FileStatistics, HtmlFormatter, JsonFormatter, MarkdownFormatter, OutputFormatter, ProjectStatistics, SarifFormatter, StatsFormatter, StatsJsonFormatter, TextFormatter, display_path};

use super::Tier;
use crate::proto::{Case, Sink, enc};
use crate::rng::Rng;

const NAMES: &[&str] = &[
    "src/main.rs", "src/lib.rs", "a b.rs", "x&y.rs", "<b>bold<.rs", "q\"uote.rs", "it's.rs", "p|ipe.rs", "back`tick.rs",
    "new\nline.rs", "hash#tag.rs", "per%cent.rs", "uni-é.rs", "日本/語.rs", "dir with space/<i>.rs", "a/b/c/deep.rs",
    "&amp;.rs", "tab\there.rs", "semi;colon.rs", "]]>.rs", "</td></tr>.rs", "$(x).rs", "-->.rs", "a\\b.rs",
];
const REASONS: &[&str] = &[
    "legacy module", "a|b", "<script>alert(1)</script>", "quote \" and ' here", "line one\nline two", "R&D", "`code`", "100% | done",
    "</div><div>", "trailing\\", "ünï",
];

fn stats(rng: &mut Rng) -> LineStats {
    // few distinct values so that every sort key has ties
    let code = *rng.pick(&[0usize, 1, 5, 5, 9]);
    let comment = *rng.pick(&[0usize, 2, 2]);
    let blank = *rng.pick(&[0usize, 1]);
    LineStats { total: code + comment + blank, code, comment, blank, ignored: 0 }
}

fn category(rng: &mut Rng) -> Option<ViolationCategory> {
    match rng.below(8) {
        0 => Some(ViolationCategory::Content),
        1 => Some(ViolationCategory::Structure { violation_type: ViolationType::FileCount, triggering_rule: None }),
        2 => Some(ViolationCategory::Structure { violation_type: ViolationType::MaxDepth, triggering_rule: Some("src/**".into()) }),
        3 => Some(ViolationCategory::Structure { violation_type: ViolationType::DeniedFile { pattern_or_extension: "<*.bak>".into() }, triggering_rule: None }),
        4 => Some(ViolationCategory::Structure { violation_type: ViolationType::MissingSibling { expected_sibling_pattern: "{stem}.test\".ts".into() }, triggering_rule: None }),
        _ => None,
    }
}

fn gen_results(rng: &mut Rng) -> (Vec<CheckResult>, Vec<char>) {
    let n = rng.below(9);
    let mut used = BTreeSet::new();
    let mut rs = vec![];
    let mut st = vec![];
    for _ in 0..n {
        let mut name = (*rng.pick(NAMES)).to_string();
        while !used.insert(name.clone()) {
            name = format!("again/{name}");
        }
        let path = if rng.chance(1, 12) { PathBuf::from(std::ffi::OsString::from_vec(vec![b'b', b'a', b'd', 0xff, b'.', b'r', b's'])) } else { PathBuf::from(&name) };
        let s = stats(rng);
        let limit = *rng.pick(&[0usize, 5, 10]);
        let reason = if rng.chance(1, 2) { Some((*rng.pick(REASONS)).to_string()) } else { None };
        let cat = category(rng);
        let raw = if rng.chance(1, 2) { Some(stats(rng)) } else { None };
        let which = rng.below(4);
        st.push(['p', 'w', 'f', 'g'][which]);
        rs.push(match which {
            0 => CheckResult::Passed { path, stats: s, raw_stats: raw, limit, override_reason: reason, violation_category: cat },
            1 => CheckResult::Warning { path, stats: s, raw_stats: raw, limit, override_reason: reason, suggestions: None, violation_category: cat },
            2 => CheckResult::Failed { path, stats: s, raw_stats: raw, limit, override_reason: reason, suggestions: None, violation_category: cat },
            _ => CheckResult::Grandfathered { path, stats: s, raw_stats: raw, limit, override_reason: reason, violation_category: cat },
        });
    }
    // the invalid-UTF-8 name may repeat: keep paths unique
    let mut seen = BTreeSet::new();
    let mut keep_rs = vec![];
    let mut keep_st = vec![];
    for (r, s) in rs.into_iter().zip(st) {
        if seen.insert(r.path().to_path_buf()) {
            keep_rs.push(r);
            keep_st.push(s);
        }
    }
    (keep_rs, keep_st)
}

fn status_char(r: &CheckResult) -> char {
    match r {
        CheckResult::Passed { .. } => 'p',
        CheckResult::Warning { .. } => 'w',
        CheckResult::Failed { .. } => 'f',
        CheckResult::Grandfathered { .. } => 'g',
    }
}

fn shown(r: &CheckResult) -> String {
    display_path(r.path(), None)
}

fn idx_list(v: &[usize]) -> String {
    if v.is_empty() { "-none-".into() } else { v.iter().map(ToString::to_string).collect::<Vec<_>>().join(",") }
}

// ------------------------------------------------------------------ HTML tokeniser

fn html_unescape(s: &str) -> String {
    s.replace("&lt;", "<").replace("&gt;", ">").replace("&quot;", "\"").replace("&#39;", "'").replace("&amp;", "&")
}

/// Checks that tags are balanced; returns the text content of every `<div class="file-path">` /
/// `<td class="file-path">` in order, and the `data-status` of every row.
fn html_scan(doc: &str) -> Result<(Vec<String>, Vec<String>), String> {
    const VOID: &[&str] = &["meta", "link", "br", "hr", "img", "input", "!doctype"];
    let b = doc.as_bytes();
    let mut i = 0;
    let mut stack: Vec<String> = vec![];
    let mut paths = vec![];
    let mut statuses = vec![];
    let mut capture: Option<(usize, usize)> = None; // (stack depth, text start)
    while i < b.len() {
        if b[i] != b'<' {
            i += 1;
            continue;
        }
        if doc[i..].starts_with("<!--") {
            match doc[i..].find("-->") {
                Some(e) => {
                    i += e + 3;
                    continue;
                }
                None => return Err("unterminated comment".into()),
            }
        }
        // tag name
        let mut j = i + 1;
        let closing = j < b.len() && b[j] == b'/';
        if closing {
            j += 1;
        }
        let ns = j;
        while j < b.len() && !(b[j] as char).is_whitespace() && b[j] != b'>' && b[j] != b'/' {
            j += 1;
        }
        let name = doc[ns..j].to_lowercase();
        if name.is_empty() || !name.chars().next().unwrap().is_ascii_alphabetic() && !name.starts_with('!') {
            return Err(format!("stray '<' at byte {i}: {:?}", &doc[i..(i + 30).min(doc.len())]));
        }
        // attributes
        let mut attrs = String::new();
        let mut self_closing = false;
        loop {
            if j >= b.len() {
                return Err(format!("unterminated tag <{name}"));
            }
            match b[j] {
                b'>' => {
                    j += 1;
                    break;
                }
                b'"' | b'\'' => {
                    let q = b[j];
                    let s = j;
                    j += 1;
                    while j < b.len() && b[j] != q {
                        j += 1;
                    }
                    if j >= b.len() {
                        return Err(format!("unterminated attribute value in <{name}"));
                    }
                    j += 1;
                    attrs.push_str(&doc[s..j]);
                }
                b'/' => {
                    self_closing = j + 1 < b.len() && b[j + 1] == b'>';
                    attrs.push('/');
                    j += 1;
                }
                b'<' => return Err(format!("'<' inside tag <{name}")),
                c => {
                    attrs.push(c as char);
                    j += 1;
                }
            }
        }
        if closing {
            if let Some((depth, start)) = capture {
                if stack.len() == depth {
                    paths.push(html_unescape(&doc[start..i]));
                    capture = None;
                }
            }
            match stack.pop() {
                Some(top) if top == name => {}
                Some(top) => return Err(format!("</{name}> closes <{top}>")),
                None => return Err(format!("</{name}> without an open element")),
            }
        } else if !(self_closing || VOID.contains(&name.as_str())) {
            if name == "script" || name == "style" {
                let close = format!("</{name}>");
                match doc[j..].to_lowercase().find(&close) {
                    Some(e) => {
                        j += e + close.len();
                    }
                    None => return Err(format!("unterminated <{name}>")),
                }
            } else {
                stack.push(name.clone());
                if attrs.contains("class=\"file-path\"") {
                    capture = Some((stack.len(), j));
                }
                if name == "tr" {
                    if let Some(p) = attrs.find("data-status=\"") {
                        let rest = &attrs[p + 13..];
                        statuses.push(rest[..rest.find('"').unwrap_or(0)].to_string());
                    }
                }
            }
        }
        i = j;
    }
    if let Some(top) = stack.pop() {
        return Err(format!("<{top}> is never closed"));
    }
    Ok((paths, statuses))
}

// ------------------------------------------------------------------ SARIF structural requirements

fn sarif_check(v: &serde_json::Value) -> Result<Vec<(String, String)>, String> {
    let obj = v.as_object().ok_or("log is not an object")?;
    if obj.get("version").and_then(|x| x.as_str()) != Some("2.1.0") {
        return Err("version is not \"2.1.0\"".into());
    }
    if !obj.get("$schema").is_some_and(serde_json::Value::is_string) {
        return Err("$schema missing".into());
    }
    let runs = obj.get("runs").and_then(|x| x.as_array()).ok_or("runs is not an array")?;
    let mut out = vec![];
    for run in runs {
        let driver = run.get("tool").and_then(|t| t.get("driver")).ok_or("run.tool.driver missing")?;
        if !driver.get("name").is_some_and(serde_json::Value::is_string) {
            return Err("tool.driver.name missing".into());
        }
        let rules = driver.get("rules").and_then(|x| x.as_array()).cloned().unwrap_or_default();
        for r in &rules {
            if !r.get("id").is_some_and(serde_json::Value::is_string) {
                return Err("a rule has no id".into());
            }
        }
        for (k, res) in run.get("results").and_then(|x| x.as_array()).ok_or("run.results is not an array")?.iter().enumerate() {
            if !res.get("message").and_then(|m| m.get("text")).is_some_and(serde_json::Value::is_string) {
                return Err(format!("results[{k}].message.text missing"));
            }
            let level = res.get("level").and_then(|x| x.as_str()).unwrap_or("warning");
            if !["none", "note", "warning", "error"].contains(&level) {
                return Err(format!("results[{k}].level = {level}"));
            }
            if let (Some(id), Some(ix)) = (res.get("ruleId").and_then(|x| x.as_str()), res.get("ruleIndex").and_then(serde_json::Value::as_u64)) {
                match rules.get(ix as usize).and_then(|r| r.get("id")).and_then(|x| x.as_str()) {
                    Some(rid) if rid == id => {}
                    other => return Err(format!("results[{k}]: ruleIndex {ix} names {other:?}, ruleId is {id}")),
                }
            }
            let locs = res.get("locations").and_then(|x| x.as_array()).cloned().unwrap_or_default();
            let mut uri = String::new();
            for l in &locs {
                let a = l.get("physicalLocation").and_then(|p| p.get("artifactLocation")).ok_or(format!("results[{k}]: location without artifactLocation"))?;
                uri = a.get("uri").and_then(|x| x.as_str()).ok_or(format!("results[{k}]: uri is not a string"))?.to_string();
                if let Some(reg) = l.get("physicalLocation").and_then(|p| p.get("region")) {
                    if reg.get("startLine").and_then(serde_json::Value::as_i64).is_some_and(|n| n < 1) {
                        return Err(format!("results[{k}]: startLine < 1"));
                    }
                }
            }
            if let Some(sup) = res.get("suppressions").and_then(|x| x.as_array()) {
                for s in sup {
                    if !["inSource", "external"].contains(&s.get("kind").and_then(|x| x.as_str()).unwrap_or("")) {
                        return Err(format!("results[{k}]: suppression kind"));
                    }
                }
            }
            out.push((uri, level.to_string()));
        }
    }
    Ok(out)
}

/// a URI reference as RFC 3986 spells it: no raw space, control, quote, angle bracket,
/// backslash, backtick, pipe, caret, brace or non-ASCII; `%` only as an escape
fn uri_reference_ok(u: &str) -> bool {
    let b = u.as_bytes();
    let mut i = 0;
    while i < b.len() {
        let c = b[i];
        if c == b'%' {
            if i + 2 >= b.len() + 0 && i + 2 > b.len() - 1 {
                return false;
            }
            if i + 2 >= b.len() || !(b[i + 1] as char).is_ascii_hexdigit() || !(b[i + 2] as char).is_ascii_hexdigit() {
                return false;
            }
            i += 3;
            continue;
        }
        let ok = c.is_ascii_alphanumeric() || b"-._~:/?#[]@!$&'()*+,;=".contains(&c);
        if !ok {
            return false;
        }
        i += 1;
    }
    true
}

fn percent_decode(u: &str) -> Vec<u8> {
    let b = u.as_bytes();
    let mut out = vec![];
    let mut i = 0;
    while i < b.len() {
        if b[i] == b'%' && i + 2 < b.len() + 0 + 1 && i + 2 <= b.len() - 1 {
            if let Ok(v) = u8::from_str_radix(&u[i + 1..i + 3], 16) {
                out.push(v);
                i += 3;
                continue;
            }
        }
        out.push(b[i]);
        i += 1;
    }
    out
}

// ------------------------------------------------------------------ in-process formatter cases

fn formatter_cases(sink: &mut Sink, rng: &mut Rng) {
    let (rs, st) = gen_results(rng);
    let st_args: String = st.iter().map(char::to_string).collect::<Vec<_>>().join(" ");
    let names: Vec<String> = rs.iter().map(shown).collect();
    let index_of = |p: &str| names.iter().position(|n| n == p);
    let shape = format!("n{}", rs.len().min(4));

    // ---- JSON: summary and rows
    let json = JsonFormatter::new().format(&rs);
    let (mut summary_impl, mut json_rows, mut json_pred) = ("error".to_string(), String::new(), None);
    match json.as_ref().map_err(ToString::to_string).and_then(|s| serde_json::from_str::<serde_json::Value>(s).map_err(|e| format!("JSON output does not parse: {e}"))) {
        Ok(v) => {
            let s = &v["summary"];
            summary_impl = format!("total={} passed={} warnings={} failed={} grandfathered={}", s["total_files"], s["passed"], s["warnings"], s["failed"], s["grandfathered"]);
            let mut listed = vec![];
            for (k, e) in v["results"].as_array().cloned().unwrap_or_default().iter().enumerate() {
                let p = e["path"].as_str().unwrap_or("");
                let stc = match e["status"].as_str().unwrap_or("") {
                    "passed" => 'p',
                    "warning" => 'w',
                    "failed" => 'f',
                    "grandfathered" => 'g',
                    _ => '?',
                };
                match index_of(p) {
                    Some(ix) if stc == st[ix] => listed.push(ix),
                    Some(ix) => json_pred = Some(format!("JSON reports {} as {stc}, the run says {}", names[ix], st[ix])),
                    None => json_pred = Some(format!("JSON results[{k}].path {p:?} is no result of the run")),
                }
            }
            json_rows = idx_list(&listed);
        }
        Err(e) => json_pred = Some(e),
    }
    if sink.want() {
        sink.push(Case { request: format!("summary {st_args}").trim().to_string(), implementation: summary_impl.clone(), pred: json_pred.clone().map_or_else(|| "ok".into(), |p| format!("FAIL {p}")), tag: format!("summary/{shape}") });
    } else {
        sink.skip();
    }
    if sink.want() {
        sink.push(Case { request: format!("rows json {st_args}").trim().to_string(), implementation: json_rows, pred: json_pred.map_or_else(|| "ok".into(), |p| format!("FAIL {p}")), tag: format!("rows/json/{shape}") });
    } else {
        sink.skip();
    }

    // ---- text
    for verbose in [0u8, 1] {
        if !sink.want() {
            sink.skip();
            continue;
        }
        let out = TextFormatter::with_verbose(ColorMode::Never, verbose).format(&rs).unwrap_or_default();
        let mut listed = vec![];
        let mut pred = None;
        // a row is "<icon> <STATUS>: <path>"; a path may itself span lines
        let mut rest = out.as_str();
        let heads = [("✗ FAILED: ", 'f'), ("⚠ WARNING: ", 'w'), ("◉ GRANDFATHERED: ", 'g'), ("✓ PASSED: ", 'p')];
        loop {
            let next = heads.iter().filter_map(|(h, c)| rest.find(h).map(|p| (p, h.len(), *c))).filter(|(p, _, _)| *p == 0 || rest.as_bytes()[p - 1] == b'\n').min();
            let Some((pos, hl, c)) = next else { break };
            let after = &rest[pos + hl..];
            match names.iter().enumerate().filter(|(_, n)| after.starts_with(n.as_str())).max_by_key(|(_, n)| n.len()) {
                Some((ix, n)) => {
                    if st[ix] != c {
                        pred = Some(format!("text lists {n:?} as {c}, the run says {}", st[ix]));
                    }
                    listed.push(ix);
                    rest = &after[n.len()..];
                }
                None => {
                    // a status word inside a path or reason of the previous row
                    rest = after;
                }
            }
        }
        let summary_line = out.lines().rev().find(|l| l.starts_with("Summary: ")).unwrap_or("");
        let nums: Vec<usize> = summary_line.split(|c: char| !c.is_ascii_digit()).filter(|t| !t.is_empty()).filter_map(|t| t.parse().ok()).collect();
        let g = st.iter().filter(|c| **c == 'g').count();
        let want: Vec<usize> = [rs.len(), st.iter().filter(|c| **c == 'p').count(), st.iter().filter(|c| **c == 'w').count(), st.iter().filter(|c| **c == 'f').count()].into_iter().chain(if g > 0 { Some(g) } else { None }).collect();
        if pred.is_none() && nums != want {
            pred = Some(format!("text summary line {summary_line:?} does not state {want:?}"));
        }
        sink.push(Case {
            request: format!("rows {} {st_args}", if verbose == 0 { "text" } else { "text-v" }).trim().to_string(),
            implementation: idx_list(&listed),
            pred: pred.map_or_else(|| "ok".into(), |p| format!("FAIL {p}")),
            tag: format!("rows/text{verbose}/{shape}"),
        });
    }

    // ---- markdown
    if sink.want() {
        let out = MarkdownFormatter::new().format(&rs).unwrap_or_default();
        let mut listed = vec![];
        let mut pred = None;
        let heads = [("| ❌ Failed | `", 'f'), ("| ⚠️ Warning | `", 'w'), ("| 🔵 Grandfathered | `", 'g'), ("| ✅ Passed | `", 'p')];
        let mut rest = out.as_str();
        loop {
            let next = heads.iter().filter_map(|(h, c)| rest.find(h).map(|p| (p, h.len(), *c))).filter(|(p, _, _)| *p == 0 || rest.as_bytes()[p - 1] == b'\n').min();
            let Some((pos, hl, c)) = next else { break };
            let after = &rest[pos + hl..];
            // a cell shows `|` as `\|` and a line break as the two characters `\n`
            let cell = |s: &str| s.replace('|', "\\|").replace('\n', "\\n").replace('\r', "\\r");
            match names.iter().enumerate().filter(|(_, n)| after.starts_with(&format!("{}` |", cell(n)))).max_by_key(|(_, n)| n.len()) {
                Some((ix, n)) => {
                    if st[ix] != c {
                        pred = Some(format!("markdown lists {n:?} as {c}, the run says {}", st[ix]));
                    }
                    listed.push(ix);
                    rest = &after[cell(n).len()..];
                }
                None => rest = after,
            }
        }
        // every table row must have the nine cells of the header
        if pred.is_none() {
            if let Some(start) = out.find("### Details") {
                for line in out[start..].lines().filter(|l| l.starts_with('|')) {
                    let cells = line.matches('|').count() - line.matches("\\|").count();
                    if cells != 10 {
                        pred = Some(format!("markdown table row has {} cells instead of 9: {line:?}", cells.saturating_sub(1)));
                        break;
                    }
                }
                let body: Vec<&str> = out[start..].lines().skip(2).filter(|l| !l.trim().is_empty()).collect();
                if pred.is_none() && body.iter().any(|l| !l.starts_with('|')) {
                    pred = Some(format!("markdown details table is interrupted by the line {:?}", body.iter().find(|l| !l.starts_with('|')).unwrap()));
                }
            }
        }
        sink.push(Case { request: format!("rows markdown {st_args}").trim().to_string(), implementation: idx_list(&listed), pred: pred.map_or_else(|| "ok".into(), |p| format!("FAIL {p}")), tag: format!("rows/markdown/{shape}") });
    } else {
        sink.skip();
    }

    // ---- html
    if sink.want() {
        let out = HtmlFormatter::new().format(&rs).unwrap_or_default();
        let mut listed = vec![];
        let mut pred = None;
        match html_scan(&out) {
            Ok((paths, statuses)) => {
                if paths.len() != statuses.len() {
                    pred = Some(format!("HTML has {} path cells and {} status rows", paths.len(), statuses.len()));
                }
                for (p, s) in paths.iter().zip(&statuses) {
                    let c = match s.as_str() {
                        "passed" => 'p',
                        "warning" => 'w',
                        "failed" => 'f',
                        "grandfathered" => 'g',
                        _ => '?',
                    };
                    match index_of(p) {
                        Some(ix) if st[ix] == c => listed.push(ix),
                        Some(ix) => pred = Some(format!("HTML lists {p:?} as {c}, the run says {}", st[ix])),
                        None => pred = Some(format!("HTML path cell {p:?} is no result of the run")),
                    }
                }
            }
            Err(e) => pred = Some(format!("HTML is not well-formed: {e}")),
        }
        // the line totals of the summary are the sums over the file rows: a structure finding
        // (whose "count" is a number of entries, not of lines) adds nothing
        if pred.is_none() {
            let card = |label: &str| -> Option<usize> {
                let re = regex::Regex::new(&format!(r#"<span class="value">(\d+)</span>\s*<span class="label">{label}</span>"#)).ok()?;
                re.captures(&out).and_then(|c| c[1].parse().ok())
            };
            let files: Vec<&CheckResult> = rs.iter().filter(|r| !matches!(r.violation_category(), Some(ViolationCategory::Structure { .. }))).collect();
            let want = (files.iter().map(|r| r.raw_stats().total).sum::<usize>(), files.iter().map(|r| r.raw_stats().code).sum::<usize>());
            if let (Some(t), Some(c)) = (card("Total Lines"), card("Code")) {
                if (t, c) != want {
                    pred = Some(format!("HTML summary shows Total Lines {t}, Code {c}; the file rows sum to {} and {}", want.0, want.1));
                }
            }
        }
        sink.push(Case { request: format!("rows html {st_args}").trim().to_string(), implementation: idx_list(&listed), pred: pred.map_or_else(|| "ok".into(), |p| format!("FAIL {p}")), tag: format!("rows/html/{shape}") });
    } else {
        sink.skip();
    }

    // ---- sarif
    if sink.want() {
        let out = SarifFormatter::new().format(&rs).unwrap_or_default();
        let mut listed = vec![];
        let mut pred = None;
        match serde_json::from_str::<serde_json::Value>(&out).map_err(|e| format!("SARIF does not parse: {e}")).and_then(|v| sarif_check(&v)) {
            Ok(rows) => {
                for (uri, level) in rows {
                    let c = match level.as_str() {
                        "error" => 'f',
                        "warning" => 'w',
                        "note" => 'g',
                        _ => '?',
                    };
                    if !uri_reference_ok(&uri) {
                        pred = Some(format!("SARIF artifactLocation.uri {uri:?} is not a URI reference"));
                    }
                    let decoded = percent_decode(&uri);
                    let found = rs.iter().position(|r| {
                        let shown_bytes = shown(r).into_bytes();
                        shown_bytes == decoded || r.path().as_os_str().as_encoded_bytes() == decoded.as_slice()
                    });
                    match found {
                        Some(ix) if st[ix] == c => listed.push(ix),
                        Some(ix) => pred = pred.or(Some(format!("SARIF lists {} at level {level}, the run says {}", names[ix], st[ix]))),
                        None => pred = pred.or(Some(format!("SARIF uri {uri:?} is no result of the run"))),
                    }
                }
            }
            Err(e) => pred = Some(e),
        }
        sink.push(Case { request: format!("rows sarif {st_args}").trim().to_string(), implementation: idx_list(&listed), pred: pred.map_or_else(|| "ok".into(), |p| format!("FAIL {p}")), tag: format!("rows/sarif/{shape}") });
    } else {
        sink.skip();
    }
}

/// the SARIF artifact URI of hostile paths, against the percent-encoding model
fn uri_cases(sink: &mut Sink) {
    for s in NAMES.iter().copied().chain(["a b/c#d?e.rs", "100%.rs", "é/ü.rs", "a:b.rs", "~tilde_-.rs", "tab\there.rs", "q\"uote.rs", "plus+and&.rs", "[x]{y}.rs", "日本/語.rs"]) {
        if !sink.want() {
            sink.skip();
            continue;
        }
        if s.is_empty() {
            sink.skip();
            continue;
        }
        let r = CheckResult::Failed { path: PathBuf::from(s), stats: LineStats { total: 1, code: 1, comment: 0, blank: 0, ignored: 0 }, raw_stats: None, limit: 0, override_reason: None, suggestions: None, violation_category: None };
        let shown_path = shown(&r);
        let out = SarifFormatter::new().format(std::slice::from_ref(&r)).unwrap_or_default();
        let uri = serde_json::from_str::<serde_json::Value>(&out).ok().and_then(|v| sarif_check(&v).ok()).and_then(|rows| rows.first().map(|x| x.0.clone()));
        let (implementation, pred) = match uri {
            Some(u) => {
                let pred = if percent_decode(&u) != shown_path.as_bytes() { Some(format!("the URI {u:?} does not decode to the path {shown_path:?}")) } else { None };
                (enc(&u), pred)
            }
            None => ("-".to_string(), Some("no artifact URI in the SARIF output".to_string())),
        };
        sink.push(Case { request: format!("uri {}", enc(&shown_path)), implementation, pred: pred.map_or_else(|| "ok".into(), |p| format!("FAIL {p}")), tag: "uri".into() });
    }
}

fn escape_cases(sink: &mut Sink) {
    for s in NAMES.iter().chain(REASONS).copied().chain(["", "&&&", "&lt;", "<<>>", "\"'\"'", "a&amp;b&#39;"]) {
        if !sink.want() {
            sink.skip();
            continue;
        }
        // observed through the HTML formatter's path cell
        let r = CheckResult::Failed { path: PathBuf::from(if s.is_empty() { "." } else { s }), stats: LineStats { total: 1, code: 1, comment: 0, blank: 0, ignored: 0 }, raw_stats: None, limit: 0, override_reason: None, suggestions: None, violation_category: None };
        let shown_path = shown(&r);
        let out = HtmlFormatter::new().format(std::slice::from_ref(&r)).unwrap_or_default();
        let marker = "<div class=\"file-path\">";
        let cell = out.find(marker).map(|p| &out[p + marker.len()..]).and_then(|t| t.find("</div>").map(|e| t[..e].to_string()));
        let (implementation, pred) = match cell {
            Some(c) => {
                let pred = if c.contains(['<', '>', '"', '\'']) { Some(format!("escaped cell {c:?} still contains markup characters")) } else if html_unescape(&c) != shown_path { Some(format!("escaped cell {c:?} does not decode to {shown_path:?}")) } else { None };
                (enc(&c), pred)
            }
            None => ("missing".to_string(), Some("no path cell in the HTML report".to_string())),
        };
        sink.push(Case { request: format!("escape {}", enc(&shown_path)), implementation, pred: pred.map_or_else(|| "ok".into(), |p| format!("FAIL {p}")), tag: "escape".into() });
    }
}

// ------------------------------------------------------------------ statistics

fn stats_cases(sink: &mut Sink, rng: &mut Rng) {
    let n = rng.below(10);
    let langs = ["Rust", "Go", "Python", "C", "Zig", "ünï"];
    let dirs = ["src", "lib", "src/a", "z", "."];
    let files: Vec<FileStatistics> = (0..n)
        .map(|i| FileStatistics { path: PathBuf::from(format!("{}/f{i}.x", rng.pick(&dirs))), stats: stats(rng), language: (*rng.pick(&langs)).to_string() })
        .collect();
    for by_dir in [false, true] {
        if !sink.want() {
            sink.skip();
            continue;
        }
        let key_of = |f: &FileStatistics| if by_dir { f.path.parent().map_or_else(|| ".".to_string(), |p| display_path(p, None)) } else { f.language.clone() };
        let request = format!("breakdown {} {}", files.len(), files.iter().map(|f| format!("{} {} {} {} {}", enc(&key_of(f)), f.stats.total, f.stats.code, f.stats.comment, f.stats.blank)).collect::<Vec<_>>().join(" ")).trim().to_string();
        let mut outs = BTreeSet::new();
        let mut implementation = String::new();
        let mut pred = None;
        for round in 0..6 {
            // a fresh hash map (fresh random state) every time, and the files in another order
            let mut fs = files.clone();
            if round % 2 == 1 {
                fs.reverse();
            }
            let ps = ProjectStatistics::new(fs);
            let ps = if by_dir { ps.with_directory_breakdown() } else { ps.with_language_breakdown() };
            let rows: Vec<String> = if by_dir {
                ps.by_directory.clone().unwrap_or_default().iter().map(|g| format!("{}:{}:{}:{}:{}:{}", enc(&g.directory), g.files, g.total_lines, g.code, g.comment, g.blank)).collect()
            } else {
                ps.by_language.clone().unwrap_or_default().iter().map(|g| format!("{}:{}:{}:{}:{}:{}", enc(&g.language), g.files, g.total_lines, g.code, g.comment, g.blank)).collect()
            };
            implementation = format!("totals={}:{}:{}:{}:{} groups={}", ps.total_files, ps.total_lines, ps.total_code, ps.total_comment, ps.total_blank, if rows.is_empty() { "-".to_string() } else { rows.join(";") });
            outs.insert(implementation.clone());
            // the JSON report of the same statistics: totals and groups agree with the struct
            if round == 0 {
                if let Ok(js) = StatsJsonFormatter::new().format(&ps) {
                    match serde_json::from_str::<serde_json::Value>(&js) {
                        Ok(v) => {
                            let s = &v["summary"];
                            if s["total_files"].as_u64() != Some(ps.total_files as u64) || s["code"].as_u64().or_else(|| s["total_code"].as_u64()) != Some(ps.total_code as u64) {
                                pred = Some(format!("stats JSON summary {s} differs from the totals {}/{}", ps.total_files, ps.total_code));
                            }
                        }
                        Err(e) => pred = Some(format!("stats JSON does not parse: {e}")),
                    }
                }
                let sum_files: usize = if by_dir { ps.by_directory.as_ref().map_or(0, |g| g.iter().map(|x| x.files).sum()) } else { ps.by_language.as_ref().map_or(0, |g| g.iter().map(|x| x.files).sum()) };
                if sum_files != files.len() {
                    pred = Some(format!("the breakdown covers {sum_files} files of {}", files.len()));
                }
                let want_code: usize = files.iter().map(|f| f.stats.code).sum();
                if ps.total_code != want_code {
                    pred = Some(format!("total_code {} is not the sum {want_code}", ps.total_code));
                }
            }
        }
        if outs.len() > 1 {
            pred = Some(format!("the same files give {} different breakdowns: {:?}", outs.len(), outs.iter().take(2).collect::<Vec<_>>()));
        }
        let ties = {
            let mut by: BTreeMap<String, usize> = BTreeMap::new();
            for f in &files {
                *by.entry(key_of(f)).or_insert(0) += f.stats.code;
            }
            let vals: Vec<usize> = by.values().copied().collect();
            vals.iter().collect::<BTreeSet<_>>().len() < vals.len()
        };
        sink.push(Case { request, implementation, pred: pred.map_or_else(|| "ok".into(), |p| format!("FAIL {p}")), tag: format!("breakdown/{}/{}", if by_dir { "dir" } else { "lang" }, if ties { "ties" } else if files.is_empty() { "empty" } else { "no-ties" }) });
    }
}

fn owner_cases(sink: &mut Sink, rng: &mut Rng) {
    let names = ["abc", "zed", "mno", "Rust", "aaa", "ZZ"];
    let exts = ["rs", "aa", "bb", "py", "q"];
    let n = rng.range(1, 4);
    let mut customs: Vec<(String, Vec<String>)> = vec![];
    for _ in 0..n {
        let name = (*rng.pick(&names)).to_string();
        if customs.iter().any(|c| c.0 == name) {
            continue;
        }
        let k = rng.range(1, 3);
        let mut es: Vec<String> = (0..k).map(|_| (*rng.pick(&exts)).to_string()).collect();
        es.dedup();
        customs.push((name, es));
    }
    let ext = (*rng.pick(&exts)).to_string();
    if !sink.want() {
        sink.skip();
        return;
    }
    let builtin = LanguageRegistry::default().get_by_extension(&ext).map(|l| l.name.clone());
    let mut seen = BTreeSet::new();
    for _ in 0..8 {
        let map: HashMap<String, CustomLanguageConfig> = customs.iter().map(|(n, e)| (n.clone(), CustomLanguageConfig { extensions: e.clone(), single_line_comments: vec!["#".into()], multi_line_comments: vec![] })).collect();
        let reg = LanguageRegistry::with_custom_languages(&map);
        seen.insert(reg.get_by_extension(&ext).map(|l| l.name.clone()));
    }
    let implementation = seen.iter().next().cloned().flatten().map_or_else(|| "-".to_string(), |s| enc(&s));
    let pred = if seen.len() > 1 { Some(format!("the owner of .{ext} differs between runs: {seen:?}")) } else { None };
    let claimants = customs.iter().filter(|c| c.1.contains(&ext)).count();
    sink.push(Case {
        request: format!("owner {} {} {} {}", builtin.as_ref().map_or_else(|| "-".to_string(), |b| enc(b)), enc(&ext), customs.len(), customs.iter().map(|(n, e)| format!("{} {} {}", enc(n), e.len(), e.iter().map(|x| enc(x)).collect::<Vec<_>>().join(" "))).collect::<Vec<_>>().join(" ")),
        implementation,
        pred: pred.map_or_else(|| "ok".into(), |p| format!("FAIL {p}")),
        tag: format!("owner/claimants{}", claimants.min(2)),
    });
}

// ------------------------------------------------------------------ end to end

struct Proj {
    dir: PathBuf,
    bin: String,
}
impl Proj {
    fn run(&self, args: &[&str], env: &[(&str, &str)]) -> (i32, Vec<u8>, String) {
        let mut c = Command::new(&self.bin);
        c.args(args).current_dir(&self.dir).env("NO_COLOR", "1").env("SLOC_GUARD_VERIF_NOW", "1700000000");
        for (k, v) in env {
            c.env(k, v);
        }
        let o = c.output().expect("run sloc-guard");
        (o.status.code().unwrap_or(-1), o.stdout, String::from_utf8_lossy(&o.stderr).into_owned())
    }
}

fn write_project(rng: &mut Rng, dir: &Path) -> Vec<String> {
    let _ = std::fs::remove_dir_all(dir);
    std::fs::create_dir_all(dir).unwrap();
    let mut files = vec![];
    let pool = ["src/main.rs", "src/lib.rs", "src/big_one.rs", "a b.rs", "x&y.rs", "<b>bold<.rs", "q\"uote.rs", "it's.rs", "p|ipe.rs", "back`tick.rs", "new\nline.rs", "hash#tag.rs", "per%cent.rs", "uni-é.rs", "dir with space/<i>.rs", "a/b/c/deep.rs", "a/one.aa", "a/two.bb", "lib/x.rs", "lib/y.rs", "lib/z.rs", "lib/w.rs"];
    for name in pool {
        if rng.chance(2, 3) {
            let code = *rng.pick(&[1usize, 3, 3, 6, 9]);
            let mut s = String::new();
            for i in 0..code {
                s += &format!("let v{i} = {i};\n");
            }
            for _ in 0..rng.below(3) {
                s += "// note\n";
            }
            for _ in 0..rng.below(2) {
                s += "\n";
            }
            let p = dir.join(name);
            std::fs::create_dir_all(p.parent().unwrap()).unwrap();
            std::fs::write(&p, s).unwrap();
            files.push(name.to_string());
        }
    }
    if rng.chance(1, 2) {
        let p = dir.join(std::ffi::OsString::from_vec(vec![b'b', b'a', b'd', 0xff, b'.', b'r', b's']));
        std::fs::write(p, "let a = 1;\nlet b = 2;\nlet c = 3;\nlet d = 4;\nlet e = 5;\nlet f = 6;\nlet g = 7;\n").unwrap();
    }
    {
        // ~700 lines of small functions: in the warning band of its own rule, large enough for the
        // split analyser to propose chunks
        let mut s = String::new();
        for i in 0..230 {
            s += &format!("fn f{i}() {{\n    let v = {i};\n}}\n");
        }
        std::fs::create_dir_all(dir.join("src")).unwrap();
        std::fs::write(dir.join("src/wide_warn.rs"), s).unwrap();
        // ignored lines (they count in `total` only)
        std::fs::write(dir.join("src/ign.rs"), "let a = 1;\n// sloc-guard:ignore-next 2\nlet b = 2;\nlet c = 3;\nlet d = 4;\n").unwrap();
        files.push("src/ign.rs".to_string());
        // over the limit, with comment and blank lines: its raw and its enforced counts differ as soon
        // as comments or blank lines count
        std::fs::write(dir.join("src/cmt_big.rs"), "// one\n// two\nlet a = 1;\nlet b = 2;\n\n// three\nlet c = 3;\nlet d = 4;\nlet e = 5;\n\n// four\nlet f = 6;\n").unwrap();
        files.push("src/cmt_big.rs".to_string());
    }
    let reason = rng.pick(REASONS).replace('\\', "\\\\").replace('"', "\\\"").replace('\n', "\\n");
    let sreason = rng.pick(REASONS).replace('\\', "\\\\").replace('"', "\\\"").replace('\n', "\\n");
    let mut cfg = format!("version = \"2\"\n[content]\nmax_lines = 5\nwarn_threshold = 0.5\nextensions = [\"rs\", \"aa\", \"bb\"]\n[[content.rules]]\npattern = \"**/big_*.rs\"\nmax_lines = 7\nreason = \"{reason}\"\n[[content.rules]]\npattern = \"**/wide_warn.rs\"\nmax_lines = 1000\nwarn_threshold = 0.5\n[structure]\nmax_files = 3\n[[structure.rules]]\nscope = \"lib\"\nmax_files = 2\nreason = \"{sreason}\"\n");
    {
        // (a fork: the other choices of the stream stay what they were)
        let mut fr = rng.fork();
        let (sc, sb) = (fr.chance(1, 2), fr.chance(1, 2));
        cfg = cfg.replacen("[content]\n", &format!("[content]\nskip_comments = {sc}\nskip_blank = {sb}\n"), 1);
    }
    if rng.chance(2, 3) {
        cfg += "[languages.zed]\nextensions = [\"aa\", \"q\"]\nsingle_line_comments = [\"#\"]\n[languages.abc]\nextensions = [\"aa\", \"bb\"]\nsingle_line_comments = [\"//\"]\n[languages.mno]\nextensions = [\"bb\"]\nsingle_line_comments = [\";\"]\n";
    }
    std::fs::write(dir.join(".sloc-guard.toml"), cfg).unwrap();
    // old enough to be cached by the first run that uses the cache
    for f in &files {
        if let Ok(h) = std::fs::OpenOptions::new().write(true).open(dir.join(f)) {
            let _ = h.set_modified(std::time::UNIX_EPOCH + std::time::Duration::from_secs(1_600_000_000));
        }
    }
    files
}

fn json_rows(bytes: &[u8]) -> Result<(BTreeMap<String, (String, u64, u64, u64, u64)>, serde_json::Value), String> {
    let v: serde_json::Value = serde_json::from_slice(bytes).map_err(|e| format!("JSON does not parse: {e}"))?;
    let mut m = BTreeMap::new();
    for e in v["results"].as_array().cloned().unwrap_or_default() {
        let key = format!("{}|{}", e["path"].as_str().unwrap_or(""), e["violation_category"]);
        m.insert(key, (e["status"].as_str().unwrap_or("").to_string(), e["stats"]["total"].as_u64().unwrap_or(0), e["stats"]["code"].as_u64().unwrap_or(0), e["stats"]["comment"].as_u64().unwrap_or(0), e["stats"]["blank"].as_u64().unwrap_or(0)));
    }
    Ok((m, v))
}

fn e2e_case(sink: &mut Sink, rng: &mut Rng, bin: &str, scratch: &str) {
    if !sink.want() {
        sink.skip();
        let _ = rng;
        return;
    }
    let dir = PathBuf::from(scratch).join(format!("e{}", sink.n));
    let _files = write_project(rng, &dir);
    let p = Proj { dir: dir.clone(), bin: bin.to_string() };
    let mut problems: Vec<String> = vec![];
    // a baseline so that grandfathered results exist, then one more failing file
    if rng.chance(1, 2) {
        p.run(&["check", "--no-sloc-cache", "--quiet", "--update-baseline", "--baseline", "bl.json"], &[]);
        std::fs::write(dir.join("src_new_fail.rs"), "let a=1;\nlet b=2;\nlet c=3;\nlet d=4;\nlet e=5;\nlet f=6;\n").unwrap();
    }
    let base_args: Vec<&str> = if dir.join("bl.json").exists() { vec!["check", "--no-sloc-cache", "--baseline", "bl.json"] } else { vec!["check", "--no-sloc-cache"] };
    let with = |extra: &[&str]| -> Vec<String> { base_args.iter().chain(extra).map(|s| (*s).to_string()).collect() };
    let run = |extra: &[&str], env: &[(&str, &str)]| {
        let a = with(extra);
        let ar: Vec<&str> = a.iter().map(String::as_str).collect();
        p.run(&ar, env)
    };
    let (rc0, json0, err0) = run(&["--format", "json"], &[]);
    if err0.contains("panicked") {
        problems.push("check panicked".into());
    }
    let reference = json_rows(&json0);
    let (ref_rows, ref_doc) = match reference {
        Ok(x) => x,
        Err(e) => {
            problems.push(e);
            (BTreeMap::new(), serde_json::Value::Null)
        }
    };
    // summary counts
    if !ref_doc.is_null() {
        let count = |s: &str| ref_rows.values().filter(|r| r.0 == s).count() as u64;
        let sum = &ref_doc["summary"];
        if sum["total_files"].as_u64() != Some(ref_rows.len() as u64) || sum["passed"].as_u64() != Some(count("passed")) || sum["warnings"].as_u64() != Some(count("warning")) || sum["failed"].as_u64() != Some(count("failed")) || sum["grandfathered"].as_u64() != Some(count("grandfathered")) {
            problems.push(format!("JSON summary {sum} does not count the {} results", ref_rows.len()));
        }
    }
    // determinism: every format, repeated, with different thread counts
    for fmt in ["json", "text", "markdown", "html", "sarif"] {
        let mut outs = BTreeSet::new();
        let mut rcs = BTreeSet::new();
        for threads in ["1", "4", "16", "4"] {
            let (rc, out, _) = run(&["--format", fmt], &[("RAYON_NUM_THREADS", threads)]);
            outs.insert(out);
            rcs.insert(rc);
        }
        // … and with the SLOC cache: a cold run, then warm ones (same command without --no-sloc-cache)
        for _ in 0..3 {
            let ar: Vec<String> = with(&["--format", fmt]).into_iter().filter(|a| a != "--no-sloc-cache").collect();
            let ar: Vec<&str> = ar.iter().map(String::as_str).collect();
            let (rc, out, _) = p.run(&ar, &[("RAYON_NUM_THREADS", "2")]);
            outs.insert(out);
            rcs.insert(rc);
        }
        if outs.len() > 1 {
            problems.push(format!("--format {fmt} gives {} different outputs for the same project (runs with 1-16 threads, without the cache, with a cold and with a warm cache)", outs.len()));
        }
        if rcs.len() > 1 || rcs.iter().next() != Some(&rc0) {
            problems.push(format!("--format {fmt} changes the exit status: {rcs:?} vs {rc0}"));
        }
        let out = outs.into_iter().next().unwrap_or_default();
        let text = String::from_utf8_lossy(&out).into_owned();
        match fmt {
            "html" => match html_scan(&text) {
                Ok((paths, statuses)) => {
                    if paths.len() != ref_rows.len() || statuses.len() != ref_rows.len() {
                        problems.push(format!("HTML lists {} rows, JSON {}", paths.len(), ref_rows.len()));
                    }
                    let mut want: Vec<String> = ref_rows.values().map(|r| r.0.clone()).collect();
                    let mut got = statuses;
                    want.sort();
                    got.sort();
                    if want != got {
                        problems.push("HTML statuses differ from JSON's".to_string());
                    }
                }
                Err(e) => problems.push(format!("HTML is not well-formed: {e}")),
            },
            "sarif" => match serde_json::from_str::<serde_json::Value>(&text).map_err(|e| format!("SARIF does not parse: {e}")).and_then(|v| sarif_check(&v)) {
                Ok(rows) => {
                    let want = ref_rows.values().filter(|r| r.0 != "passed").count();
                    if rows.len() != want {
                        problems.push(format!("SARIF has {} results, JSON has {want} that are not passed", rows.len()));
                    }
                    let lv = |s: &str| rows.iter().filter(|r| r.1 == s).count();
                    let st = |s: &str| ref_rows.values().filter(|r| r.0 == s).count();
                    if lv("error") != st("failed") || lv("warning") != st("warning") || lv("note") != st("grandfathered") {
                        problems.push("SARIF levels do not match JSON statuses".to_string());
                    }
                    if let Some((u, _)) = rows.iter().find(|r| !uri_reference_ok(&r.0)) {
                        problems.push(format!("SARIF uri {u:?} is not a URI reference"));
                    }
                }
                Err(e) => problems.push(e),
            },
            "text" => {
                let line = text.lines().rev().find(|l| l.starts_with("Summary: ")).unwrap_or("");
                let nums: Vec<u64> = line.split(|c: char| !c.is_ascii_digit()).filter(|t| !t.is_empty()).filter_map(|t| t.parse().ok()).collect();
                let st = |s: &str| ref_rows.values().filter(|r| r.0 == s).count() as u64;
                if nums.len() < 4 || nums[0] != ref_rows.len() as u64 || nums[1] != st("passed") || nums[2] != st("warning") || nums[3] != st("failed") {
                    problems.push(format!("text summary {line:?} differs from JSON's counts"));
                }
            }
            "markdown" => {
                let st = |s: &str| ref_rows.values().filter(|r| r.0 == s).count();
                for (label, s) in [("| ❌ Failed | ", "failed"), ("| ⚠️ Warnings | ", "warning"), ("| ✅ Passed | ", "passed")] {
                    let n: Option<usize> = text.lines().find(|l| l.starts_with(label) && !l.contains('`')).and_then(|l| l[label.len()..].trim_end_matches('|').trim().parse().ok());
                    if n != Some(st(s)) {
                        problems.push(format!("markdown summary says {n:?} {s}, JSON {}", st(s)));
                    }
                }
            }
            _ => {}
        }
    }
    // presentation flags change neither statuses nor the exit status
    for flags in [&["--quiet"][..], &["--verbose"], &["-vv"], &["--color", "always"], &["--color", "never"], &["--suggest"]] {
        let mut a: Vec<&str> = vec!["--format", "text", "--write-json", "side.json"];
        a.extend_from_slice(flags);
        let (rc, _, err) = run(&a, &[]);
        if err.contains("panicked") {
            problems.push(format!("check {} panicked", flags.join(" ")));
        }
        if rc != rc0 {
            problems.push(format!("check {} exits {rc}, without it {rc0}", flags.join(" ")));
        }
        match std::fs::read(dir.join("side.json")).map_err(|e| e.to_string()).and_then(|b| json_rows(&b)) {
            Ok((rows, _)) => {
                let a: BTreeMap<&String, &String> = rows.iter().map(|(k, v)| (k, &v.0)).collect();
                let b: BTreeMap<&String, &String> = ref_rows.iter().map(|(k, v)| (k, &v.0)).collect();
                if a != b {
                    problems.push(format!("check {} changes the reported statuses", flags.join(" ")));
                }
            }
            Err(e) => problems.push(format!("--write-json under {}: {e}", flags.join(" "))),
        }
        let _ = std::fs::remove_file(dir.join("side.json"));
    }
    // side-car files equal the primary output of the same format
    {
        let (_, primary_sarif, _) = run(&["--format", "sarif"], &[]);
        let (_, _, _) = run(&["--format", "text", "--write-sarif", "side.sarif", "--write-json", "side.json"], &[]);
        if std::fs::read(dir.join("side.sarif")).ok().as_deref() != Some(primary_sarif.as_slice()) {
            problems.push("--write-sarif differs from --format sarif".to_string());
        }
        if std::fs::read(dir.join("side.json")).ok().as_deref() != Some(json0.as_slice()) {
            problems.push("--write-json differs from --format json".to_string());
        }
        let _ = std::fs::remove_file(dir.join("side.sarif"));
        let _ = std::fs::remove_file(dir.join("side.json"));
    }
    // stats: totals are sums, breakdowns partition, per-file counts equal check's
    {
        let mut outs = BTreeSet::new();
        for threads in ["1", "8", "3"] {
            let (_, o, _) = p.run(&["stats", "files", "--format", "json", "--no-sloc-cache"], &[("RAYON_NUM_THREADS", threads)]);
            outs.insert(o);
        }
        if outs.len() > 1 {
            problems.push("`stats files --format json` differs between runs".to_string());
        }
        let files_doc: serde_json::Value = serde_json::from_slice(outs.iter().next().map_or(&b""[..], Vec::as_slice)).unwrap_or(serde_json::Value::Null);
        let mut per_file: BTreeMap<String, (u64, u64, u64, u64)> = BTreeMap::new();
        for f in files_doc["top_files"].as_array().or_else(|| files_doc["files"].as_array()).cloned().unwrap_or_default() {
            per_file.insert(f["path"].as_str().unwrap_or("").trim_start_matches("./").to_string(), (f["total"].as_u64().or_else(|| f["stats"]["total"].as_u64()).unwrap_or(0), f["code"].as_u64().or_else(|| f["stats"]["code"].as_u64()).unwrap_or(0), f["comment"].as_u64().or_else(|| f["stats"]["comment"].as_u64()).unwrap_or(0), f["blank"].as_u64().or_else(|| f["stats"]["blank"].as_u64()).unwrap_or(0)));
        }
        for (k, r) in &ref_rows {
            if !k.ends_with("|null") {
                continue;
            }
            let path = k.trim_end_matches("|null").trim_start_matches("./");
            if let Some(s) = per_file.get(path) {
                if (r.1, r.2, r.3, r.4) != *s {
                    problems.push(format!("{path:?}: check counts {:?}, stats counts {s:?}", (r.1, r.2, r.3, r.4)));
                }
            }
        }
        let mut souts = BTreeSet::new();
        for _ in 0..4 {
            let (_, o, _) = p.run(&["stats", "breakdown", "--format", "json", "--no-sloc-cache"], &[]);
            souts.insert(o);
        }
        if souts.len() > 1 {
            problems.push("`stats breakdown --format json` differs between runs".to_string());
        }
        let bd: serde_json::Value = serde_json::from_slice(souts.iter().next().map_or(&b""[..], Vec::as_slice)).unwrap_or(serde_json::Value::Null);
        let (_, so, _) = p.run(&["stats", "summary", "--format", "json", "--no-sloc-cache"], &[]);
        let sm: serde_json::Value = serde_json::from_slice(&so).unwrap_or(serde_json::Value::Null);
        let total_files = sm["summary"]["total_files"].as_u64();
        let total_code = sm["summary"]["code"].as_u64().or_else(|| sm["summary"]["total_code"].as_u64());
        if !per_file.is_empty() {
            if total_files != Some(per_file.len() as u64) {
                problems.push(format!("stats summary total_files {total_files:?}, stats files lists {}", per_file.len()));
            }
            let code_sum: u64 = per_file.values().map(|s| s.1).sum();
            if total_code != Some(code_sum) {
                problems.push(format!("stats summary code {total_code:?}, sum over files {code_sum}"));
            }
        }
        if let Some(groups) = bd["by_language"].as_array() {
            let gf: u64 = groups.iter().map(|g| g["files"].as_u64().unwrap_or(0)).sum();
            let gc: u64 = groups.iter().map(|g| g["code"].as_u64().unwrap_or(0)).sum();
            if Some(gf) != total_files || Some(gc) != total_code {
                problems.push(format!("language breakdown covers {gf} files / {gc} code lines, the summary says {total_files:?} / {total_code:?}"));
            }
        }
    }
    let _ = std::fs::remove_dir_all(&dir);
    sink.push(Case { request: "noop".into(), implementation: "-".into(), pred: if problems.is_empty() { "ok".into() } else { format!("FAIL {}", problems.join("; ")) }, tag: format!("e2e/exit{rc0}") });
}

/// many directories each carrying two structure results (over max_files and over max_dirs):
/// repeated runs must be byte-identical in every machine format
fn many_violations_case(sink: &mut Sink, bin: &str, scratch: &str) {
    if !sink.want() {
        sink.skip();
        return;
    }
    let dir = PathBuf::from(scratch).join(format!("m{}", sink.n));
    let _ = std::fs::remove_dir_all(&dir);
    for d in 0..32 {
        for f in 0..3 {
            let p = dir.join(format!("pkg/d{d:02}/f{f}.rs"));
            std::fs::create_dir_all(p.parent().unwrap()).unwrap();
            std::fs::write(p, "let a = 1;\n").unwrap();
        }
        for sub in 0..3 {
            let p = dir.join(format!("pkg/d{d:02}/s{sub}/x.rs"));
            std::fs::create_dir_all(p.parent().unwrap()).unwrap();
            std::fs::write(p, "let a = 1;\n").unwrap();
        }
    }
    std::fs::write(dir.join(".sloc-guard.toml"), "version = \"2\"\n[content]\nmax_lines = 50\nextensions = [\"rs\"]\n[structure]\nmax_files = 2\nmax_dirs = 2\n[[structure.rules]]\nscope = \"pkg\"\nmax_dirs = 100\n").unwrap();
    let p = Proj { dir: dir.clone(), bin: bin.to_string() };
    let mut problems = vec![];
    for fmt in ["json", "sarif", "markdown", "html", "text"] {
        let mut outs = BTreeSet::new();
        for threads in ["1", "2", "8", "4", "16", "3"] {
            let (_, out, _) = p.run(&["check", "--no-sloc-cache", "--format", fmt], &[("RAYON_NUM_THREADS", threads)]);
            outs.insert(out);
        }
        if outs.len() > 1 {
            problems.push(format!("--format {fmt} gives {} different outputs over 6 runs of one project with 64 structure violations", outs.len()));
        }
    }
    let _ = std::fs::remove_dir_all(&dir);
    sink.push(Case { request: "noop".into(), implementation: "-".into(), pred: if problems.is_empty() { "ok".into() } else { format!("FAIL {}", problems.join("; ")) }, tag: "e2e/many-structure-violations".into() });
}

pub fn run(tier: Tier, seed: u64, out: &str) {
    let mut sink = Sink::create(out);
    let mut rng = Rng::new(seed ^ 0xC20);
    let scratch = std::env::var("SGVERIF_SCRATCH").unwrap_or_else(|_| "/verif/.build/scratch/c20".to_string());
    escape_cases(&mut sink);
    uri_cases(&mut sink);
    for _ in 0..tier.scale(400, 6000) {
        let mut r = rng.fork();
        formatter_cases(&mut sink, &mut r);
    }
    for _ in 0..tier.scale(600, 8000) {
        let mut r = rng.fork();
        stats_cases(&mut sink, &mut r);
    }
    for _ in 0..tier.scale(400, 4000) {
        let mut r = rng.fork();
        owner_cases(&mut sink, &mut r);
    }
    if let Ok(bin) = std::env::var("SGVERIF_BIN") {
        many_violations_case(&mut sink, &bin, &scratch);
        for _ in 0..tier.scale(8, 60) {
            let mut r = rng.fork();
            e2e_case(&mut sink, &mut r, &bin, &scratch);
        }
    }
    sink.extra.insert("trivial_tag_prefixes".into(), serde_json::json!(["summary/n0", "rows/json/n0", "breakdown/lang/empty", "breakdown/dir/empty"]));
    sink.finish(out);
}
