//! C07 — placement rules (deny / allow / naming / siblings) flag exactly the offending entries.
//!
//! Trees of names are materialised on disk and scanned by the real unified scanner built from a
//! generated `[structure]` configuration; every membership test the ladders depend on (extension
//! lists, file-name globs, path globs, naming regex, rule scopes) is recomputed here with
//! `globset` / `regex` and handed to the model as bits; sibling rules are checked through
//! `StructureChecker::check_siblings`.
use std::collections::BTreeMap;
use std::path::{Path, PathBuf};

use sloc_guard::checker::{StructureRuleMatch, ViolationType};
use sloc_guard::commands::context::CheckContext;
use sloc_guard::config::{Config, SiblingRequire, SiblingRule, SiblingSeverity, StructureRule};

use super::Tier;
use crate::proto::{Case, Sink, b, enc};
use crate::rng::Rng;

fn gm(pat: &str, s: &str) -> bool {
    crate::globfact::is_match(pat, s)
}
fn any_glob(pats: &[String], s: &str) -> bool {
    pats.iter().any(|p| gm(p, s))
}
fn ext_with_dot(name: &str) -> Option<String> {
    Path::new(name).extension().map(|e| format!(".{}", e.to_string_lossy()))
}
fn basename(rel: &str) -> &str {
    rel.rsplit('/').next().unwrap_or(rel)
}
fn parent_of(rel: &str) -> &str {
    rel.rsplit_once('/').map_or("", |x| x.0)
}

const FILE_NAMES: &[&str] = &[
    "Button.tsx", "Button.test.tsx", "Button.stories.tsx", "Card.tsx", "Card.test.tsx", "index.ts", "util.rs", "util_test.rs", "old.bak",
    ".env", "Makefile", "notes.md", "a.test.test.tsx", "a.tsx", "a.test.tsx", "日本.rs", "my file.rs", "x.gen.rs", "README", "lib.rs",
];
const DIR_NAMES: &[&str] = &["comp", "button", "utils", "node_modules", "tmp", "__tests__", ".cache", "generated"];
const SCOPES: &[&str] = &["src/**", "src/comp/**", "**/comp/**", "src", "src/comp", "**/button", "src/*", "**"];

fn gen_lists(r: &mut Rng, allow_mode: bool) -> StructureRule {
    let mut ru = StructureRule::default();
    let pick_some = |r: &mut Rng, pool: &[&str], p: usize| -> Vec<String> { pool.iter().filter(|_| r.chance(1, p)).map(|s| (*s).to_string()).collect() };
    if allow_mode {
        ru.allow_extensions = pick_some(r, &[".tsx", ".ts", ".rs", ".md"], 2);
        ru.allow_files = pick_some(r, &["Makefile", "README*", "index.*", ".env"], 3);
        ru.allow_patterns = pick_some(r, &["**/*.test.tsx", "*.stories.*", "src/comp/*.tsx"], 4);
        ru.allow_dirs = pick_some(r, &["comp", "button", "util*", "__tests__"], 3);
    } else {
        ru.deny_extensions = pick_some(r, &[".bak", ".md", ".tsx"], 3);
        ru.deny_files = pick_some(r, &["*.gen.rs", ".env", "my file.rs", "index.*"], 3);
        ru.deny_patterns = pick_some(r, &["**/*.test.test.*", "src/comp/button/*.rs", "*.stories.*"], 3);
        ru.deny_dirs = pick_some(r, &["node_modules", "tmp", ".cache", "generated"], 2);
    }
    if r.chance(1, 3) {
        ru.file_naming_pattern = Some((*r.pick(&["^[A-Z]", "^[a-z_.]+$", "\\.tsx?$"])).to_string());
    }
    ru
}

fn has_placement(ru: &StructureRule) -> bool {
    !ru.allow_extensions.is_empty() || !ru.allow_patterns.is_empty() || !ru.allow_files.is_empty() || !ru.allow_dirs.is_empty()
        || !ru.deny_extensions.is_empty() || !ru.deny_patterns.is_empty() || !ru.deny_files.is_empty() || !ru.deny_dirs.is_empty()
        || ru.file_naming_pattern.is_some()
}

fn gen_config(r: &mut Rng) -> Config {
    let mut cfg = Config::default();
    let s = &mut cfg.structure;
    match r.below(3) {
        0 => {
            let g = gen_lists(r, true);
            s.allow_extensions = g.allow_extensions;
            s.allow_files = g.allow_files;
            s.allow_dirs = g.allow_dirs;
        }
        1 => {
            let g = gen_lists(r, false);
            s.deny_extensions = g.deny_extensions;
            s.deny_files = g.deny_files;
            s.deny_dirs = g.deny_dirs;
            s.deny_patterns = g.deny_patterns;
            if r.chance(1, 3) { s.deny_patterns.push("tmp/".to_string()); }
            if r.chance(1, 4) { s.deny_patterns.push("**/comp/button/".to_string()); }
        }
        _ => {}
    }
    s.max_files = Some(1000); // keep structure checking enabled
    let n = r.below(4);
    let mut scopes: Vec<&str> = SCOPES.to_vec();
    for i in (1..scopes.len()).rev() {
        scopes.swap(i, r.below(i + 1));
    }
    for i in 0..n {
        let allow_mode = r.chance(1, 2);
        let mut ru = if r.chance(1, 5) { StructureRule::default() } else { gen_lists(r, allow_mode) };
        ru.scope = scopes[i].to_string();
        if r.chance(1, 3) { ru.max_files = Some(50); }
        // sibling rules
        if r.chance(1, 3) {
            ru.siblings.push(SiblingRule::Directed {
                match_pattern: (*r.pick(&["*.tsx", "[A-Z]*.tsx", "*.rs"])).to_string(),
                require: if r.chance(1, 2) { SiblingRequire::Single("{stem}.test.tsx".into()) } else { SiblingRequire::Multiple(vec!["{stem}.test.tsx".into(), "{stem}.stories.tsx".into()]) },
                severity: if r.chance(1, 3) { SiblingSeverity::Warn } else { SiblingSeverity::Error },
            });
        }
        if r.chance(1, 3) {
            ru.siblings.push(SiblingRule::Group {
                group: r.pick(&[vec!["{stem}.tsx".to_string(), "{stem}.test.tsx".to_string()], vec!["{stem}.rs".to_string(), "{stem}_test.rs".to_string()], vec!["{stem}.tsx".to_string(), "{stem}.test.tsx".to_string(), "{stem}.stories.tsx".to_string()]]).clone(),
                severity: SiblingSeverity::Error,
            });
            // a second group rule of the same scope, overlapping the first in its members: one group
            // of a stem can be complete while the other is not
            if r.chance(1, 2) {
                ru.siblings.push(SiblingRule::Group {
                    group: r.pick(&[vec!["{stem}.test.tsx".to_string(), "{stem}.stories.tsx".to_string()], vec!["{stem}.tsx".to_string(), "{stem}.stories.tsx".to_string()], vec!["{stem}.tsx".to_string(), "{stem}.test.tsx".to_string(), "{stem}.stories.tsx".to_string()], vec!["{stem}.tsx".to_string(), "{stem}.test.tsx".to_string()]]).clone(),
                    severity: SiblingSeverity::Error,
                });
            }
        }
        s.rules.push(ru);
    }
    cfg
}

struct Node {
    rel: String,
    is_dir: bool,
}

fn build_tree(r: &mut Rng, root: &Path) -> Vec<Node> {
    let _ = std::fs::remove_dir_all(root);
    std::fs::create_dir_all(root.join("src")).unwrap();
    let mut nodes = vec![Node { rel: "src".into(), is_dir: true }];
    let mut frontier = vec![(String::from("src"), 0usize)];
    while let Some((d, depth)) = frontier.pop() {
        if depth >= 3 { continue; }
        let mut used: Vec<&str> = vec![];
        for _ in 0..r.below(7) {
            let is_dir = r.chance(1, 4);
            let name = if is_dir { *r.pick(DIR_NAMES) } else { *r.pick(FILE_NAMES) };
            if used.contains(&name) { continue; }
            used.push(name);
            let rel = format!("{d}/{name}");
            if is_dir {
                std::fs::create_dir_all(root.join(&rel)).unwrap();
                frontier.push((rel.clone(), depth + 1));
            } else {
                std::fs::write(root.join(&rel), "x\n").unwrap();
            }
            nodes.push(Node { rel, is_dir });
        }
    }
    nodes
}

fn origin_index(cfg: &Config, pattern: &str) -> String {
    if pattern == "global" {
        return "global".to_string();
    }
    // scopes are unique in a generated configuration; index among rules that carry placement fields
    let placed: Vec<&StructureRule> = cfg.structure.rules.iter().filter(|x| has_placement(x)).collect();
    placed.iter().position(|x| x.scope == pattern).map_or_else(|| format!("rule:?{pattern}"), |i| format!("rule:{i}"))
}

#[allow(clippy::too_many_lines)]
fn emit_tree(sink: &mut Sink, r: &mut Rng, scratch: &str) {
    let root = PathBuf::from(scratch).join(format!("p{}", sink.n));
    let nodes = build_tree(r, &root);
    let cfg = gen_config(r);
    let ctx = match CheckContext::from_config(&cfg, 0.8, vec![], false) {
        Ok(c) => c,
        Err(e) => {
            if sink.want() {
                sink.push(Case { request: "noop".into(), implementation: "-".into(), pred: format!("FAIL generated configuration rejected: {e}"), tag: "error".into() });
            } else {
                sink.skip();
            }
            return;
        }
    };
    let old = std::env::current_dir().unwrap();
    std::env::set_current_dir(&root).unwrap();
    let scan = ctx.scanner.scan_all_with_structure(&[PathBuf::from("src")], ctx.structure_scan_config.as_ref());
    // the whole project as the target: the root itself is no entry of any directory, so no allow
    // or deny list has anything to say about it
    let root_findings: Vec<String> = ctx
        .scanner
        .scan_all_with_structure(&[PathBuf::from(".")], ctx.structure_scan_config.as_ref())
        .map(|s| s.allowlist_violations.iter().filter(|v| v.path == Path::new(".")).map(|v| format!("{:?}", v.violation_type)).collect())
        .unwrap_or_default();
    std::env::set_current_dir(old).unwrap();
    if sink.want() {
        sink.push(Case {
            request: "noop".into(),
            implementation: "-".into(),
            pred: if root_findings.is_empty() { "ok".into() } else { format!("FAIL the project root `.` is reported by the placement rules: {}", root_findings.join(", ")) },
            tag: "root/placement".into(),
        });
    } else {
        sink.skip();
    }
    let Ok(scan) = scan else {
        if sink.want() { sink.push(Case { request: "noop".into(), implementation: "-".into(), pred: "FAIL scan error".into(), tag: "error".into() }); } else { sink.skip(); }
        return;
    };
    let checker = ctx.structure_checker.as_ref().expect("structure checker");
    // observed placement findings per path
    let mut observed: BTreeMap<String, Vec<String>> = BTreeMap::new();
    for v in &scan.allowlist_violations {
        let kind = match &v.violation_type {
            ViolationType::DisallowedFile | ViolationType::DisallowedDirectory => "disallowed",
            ViolationType::DeniedFile { .. } | ViolationType::DeniedDirectory { .. } => "denied",
            ViolationType::NamingConvention { .. } => "naming",
            _ => "other",
        };
        let origin = origin_index(&cfg, v.triggering_rule_pattern.as_deref().unwrap_or("?"));
        observed.entry(v.path.to_string_lossy().replace('\\', "/")).or_default().push(format!("{kind}:{origin}"));
    }
    let s = &cfg.structure;
    let placed: Vec<&StructureRule> = s.rules.iter().filter(|x| has_placement(x)).collect();
    let (deny_dir_pats, deny_file_pats): (Vec<String>, Vec<String>) = s.deny_patterns.iter().cloned().partition(|p| p.ends_with('/'));
    let deny_dir_pats: Vec<String> = deny_dir_pats.iter().map(|p| p.trim_end_matches('/').to_string()).collect();
    for n in &nodes {
        if n.rel == "src" { continue; }
        if !sink.want() {
            sink.skip();
            continue;
        }
        let name = basename(&n.rel);
        let parent = parent_of(&n.rel);
        let ext = ext_with_dot(name);
        let mut obs = observed.get(&n.rel).cloned().unwrap_or_default();
        obs.sort();
        let implementation = if obs.is_empty() { "none".to_string() } else { obs.join(",") };
        let (req, want): (String, Vec<String>);
        if n.is_dir {
            let g_has = !s.allow_dirs.is_empty();
            let g_allow = any_glob(&s.allow_dirs, name);
            let g_dpat = any_glob(&deny_dir_pats, name) || any_glob(&deny_dir_pats, &n.rel);
            let g_dbase = any_glob(&s.deny_dirs, name);
            let mut q = format!("place-dir {} {} {} {} {}", b(g_has), b(g_allow), b(g_dpat), b(g_dbase), placed.len());
            let bits: Vec<(bool, bool, bool, bool)> = placed.iter().map(|ru| (gm(&ru.scope, parent), !ru.allow_dirs.is_empty(), any_glob(&ru.allow_dirs, name), any_glob(&ru.deny_dirs, name))).collect();
            for (a, c, d, e) in &bits {
                q += &format!(" {} {} {} {}", b(*a), b(*c), b(*d), b(*e));
            }
            // documented decision table
            let sel = bits.iter().rposition(|x| x.0);
            let mut w = vec![];
            if g_has {
                if !g_allow { w.push("disallowed:global".to_string()); }
            } else if !sel.is_some_and(|i| bits[i].1 && bits[i].2) {
                if g_dpat { w.push("denied:global".to_string()); }
                if g_dbase { w.push("denied:global".to_string()); }
            }
            if let Some(i) = sel {
                if bits[i].1 {
                    if !bits[i].2 { w.push(format!("disallowed:rule:{i}")); }
                } else if bits[i].3 {
                    w.push(format!("denied:rule:{i}"));
                }
            }
            w.sort();
            req = q;
            want = w;
        } else {
            let g_has = !s.allow_extensions.is_empty() || !s.allow_files.is_empty();
            let g_al = [ext.as_ref().is_some_and(|e| s.allow_extensions.contains(e)), any_glob(&s.allow_files, name), false];
            let g_dn = [ext.as_ref().is_some_and(|e| s.deny_extensions.contains(e)), any_glob(&s.deny_files, name), any_glob(&deny_file_pats, name) || any_glob(&deny_file_pats, &n.rel)];
            let g_allow = g_al.iter().any(|x| *x);
            let g_deny = g_dn.iter().any(|x| *x);
            let b3 = |x: &[bool; 3]| format!("{} {} {}", b(x[0]), b(x[1]), b(x[2]));
            let mut q = format!("place-file {} {} {} {}", b(g_has), b3(&g_al), b3(&g_dn), placed.len());
            let mut raw: Vec<([bool; 3], [bool; 3])> = vec![];
            let bits: Vec<[bool; 6]> = placed
                .iter()
                .map(|ru| {
                    let has_allow = !ru.allow_extensions.is_empty() || !ru.allow_patterns.is_empty() || !ru.allow_files.is_empty();
                    let al = [ext.as_ref().is_some_and(|e| ru.allow_extensions.contains(e)), any_glob(&ru.allow_files, name), any_glob(&ru.allow_patterns, name) || any_glob(&ru.allow_patterns, &n.rel)];
                    let dn = [ext.as_ref().is_some_and(|e| ru.deny_extensions.contains(e)), any_glob(&ru.deny_files, name), any_glob(&ru.deny_patterns, name) || any_glob(&ru.deny_patterns, &n.rel)];
                    raw.push((al, dn));
                    let naming_ok = ru.file_naming_pattern.as_ref().is_none_or(|p| regex_match(p, name));
                    [gm(&ru.scope, parent), has_allow, al.iter().any(|x| *x), dn.iter().any(|x| *x), ru.file_naming_pattern.is_some(), naming_ok]
                })
                .collect();
            for (x, (al, dn)) in bits.iter().zip(&raw) {
                q += &format!(" {} {} {} {} {} {}", b(x[0]), b(x[1]), b3(al), b3(dn), b(x[4]), b(x[5]));
            }
            let sel = bits.iter().rposition(|x| x[0]);
            let w: Option<String> = (|| {
                if g_has {
                    if !g_allow { return Some("disallowed:global".to_string()); }
                } else if g_deny && !sel.is_some_and(|i| bits[i][1] && bits[i][2]) {
                    return Some("denied:global".to_string());
                }
                let i = sel?;
                if bits[i][3] { return Some(format!("denied:rule:{i}")); }
                if bits[i][1] && !bits[i][2] { return Some(format!("disallowed:rule:{i}")); }
                if bits[i][4] && !bits[i][5] { return Some(format!("naming:rule:{i}")); }
                None
            })();
            req = q;
            want = w.into_iter().collect();
        }
        let mut pred: Option<String> = None;
        if obs != want {
            pred = Some(format!("{} `{}`: reported [{}], the documented rules give [{}]", if n.is_dir { "directory" } else { "file" }, n.rel, obs.join(","), want.join(",")));
        }
        if !n.is_dir && obs.len() > 1 {
            pred = Some(format!("file `{}` reported more than once", n.rel));
        }
        // the rule consulted is the one `explain` names for the directory (last declared match)
        if pred.is_none() {
            let x = checker.explain(Path::new(parent));
            let named = match &x.matched_rule { StructureRuleMatch::Rule { index, .. } => Some(*index), StructureRuleMatch::Default => None };
            let consulted: Option<usize> = s.rules.iter().enumerate().filter(|(_, ru)| has_placement(ru) && gm(&ru.scope, parent)).map(|x| x.0).next_back();
            if let (Some(c), Some(nm)) = (consulted, named) {
                if c != nm && has_placement(&s.rules[nm]) {
                    pred = Some(format!("placement consulted rule {c} for `{parent}` but explain names rule {nm}"));
                } else if c != nm && !obs.is_empty() && obs.iter().any(|o| o.contains("rule:")) {
                    pred = Some(format!("key=placement-ignores-later-rule-without-lists `{}` is reported by rule {c} although explain names the later rule {nm} (which has no placement lists) for `{parent}`", n.rel));
                }
            }
        }
        sink.push(Case {
            request: req,
            implementation,
            pred: pred.map_or_else(|| "ok".to_string(), |p| format!("FAIL {p}")),
            tag: format!("{}/{}", if n.is_dir { "dir" } else { "file" }, if obs.is_empty() { "clean".to_string() } else { obs[0].split(':').next().unwrap_or("?").to_string() }),
        });
    }
    // ---- siblings
    let mut by_dir: BTreeMap<String, Vec<String>> = BTreeMap::new();
    for f in &scan.files {
        let rel = f.to_string_lossy().replace('\\', "/");
        by_dir.entry(parent_of(&rel).to_string()).or_default().push(basename(&rel).to_string());
    }
    let sib = checker.check_siblings(&scan.files);
    for (dir, names) in &by_dir {
        for (ri, ru) in s.rules.iter().enumerate() {
            if !gm(&ru.scope, dir) { continue; }
            for sr in &ru.siblings {
                for name in names {
                    if !sink.want() {
                        sink.skip();
                        continue;
                    }
                    let path = format!("{dir}/{name}");
                    match sr {
                        SiblingRule::Directed { match_pattern, require, .. } => {
                            if !gm(match_pattern, name) { sink.skip(); continue; }
                            let templates: Vec<String> = require.as_patterns().iter().map(|x| (*x).to_string()).collect();
                            let mut got: Vec<String> = sib.iter().filter(|v| v.path.to_string_lossy() == path && v.triggering_rule_pattern.as_deref() == Some(ru.scope.as_str())).filter_map(|v| match &v.violation_type { ViolationType::MissingSibling { expected_sibling_pattern } => Some(expected_sibling_pattern.clone()), _ => None }).collect();
                            got.sort();
                            got.dedup();
                            // documented: each templated companion of a matching file is required
                            let stem = Path::new(name).file_stem().map(|x| x.to_string_lossy().into_owned()).unwrap_or_default();
                            let mut want: Vec<String> = templates.iter().filter(|t| !names.contains(&t.replace("{stem}", &stem))).cloned().collect();
                            want.sort();
                            let mut q = format!("sib-directed {} {}", enc(name), templates.len());
                            for t in &templates { q += &format!(" {}", enc(t)); }
                            q += &format!(" {}", names.len());
                            for x in names { q += &format!(" {}", enc(x)); }
                            // model answers in template order; compare sorted on both sides via the predicate, raw via order of templates
                            let in_order: Vec<String> = templates.iter().filter(|t| got.contains(t)).cloned().collect();
                            sink.push(Case {
                                request: q,
                                implementation: if in_order.is_empty() { "-".into() } else { in_order.iter().map(|x| enc(x)).collect::<Vec<_>>().join(",") },
                                pred: if got == want { "ok".into() } else { format!("FAIL directed sibling rule {ri} on `{path}`: missing {got:?}, documented {want:?}") },
                                tag: format!("sib-directed/{}", if got.is_empty() { "complete" } else { "missing" }),
                            });
                        }
                        SiblingRule::Group { group, .. } => {
                            let got: Option<Vec<String>> = sib.iter().filter(|v| v.path.to_string_lossy() == path && v.triggering_rule_pattern.as_deref() == Some(ru.scope.as_str())).find_map(|v| match &v.violation_type { ViolationType::GroupIncomplete { group_patterns, missing_patterns } if group_patterns == group => Some(missing_patterns.clone()), _ => None });
                            // which stems does this name give?
                            let stems: Vec<String> = group.iter().filter_map(|p| spec_extract(name, p)).collect();
                            if stems.is_empty() { sink.skip(); continue; }
                            // documented: violated exactly when some but not all members exist for a stem
                            let mut distinct = stems.clone();
                            distinct.sort();
                            distinct.dedup();
                            let unambiguous = distinct.len() == 1;
                            let mut pred = "ok".to_string();
                            if unambiguous {
                                let missing: Vec<String> = group.iter().filter(|p| !names.contains(&p.replace("{stem}", &distinct[0]))).cloned().collect();
                                if got.clone().unwrap_or_default() != missing {
                                    pred = format!("FAIL group rule {ri} on `{path}`: reported missing {:?}, members missing for stem `{}`: {missing:?}", got, distinct[0]);
                                }
                            } else {
                                // several stems: every stem's group must be complete for silence
                                let any_incomplete = distinct.iter().any(|st| group.iter().any(|p| !names.contains(&p.replace("{stem}", st))));
                                if any_incomplete && got.is_none() {
                                    pred = format!("FAIL key=group-ambiguous-stem group rule {ri} on `{path}`: stems {distinct:?}, an incomplete group is not reported");
                                }
                            }
                            let mut q = format!("sib-group {} {}", enc(name), group.len());
                            for t in group { q += &format!(" {}", enc(t)); }
                            q += &format!(" {}", names.len());
                            for x in names { q += &format!(" {}", enc(x)); }
                            sink.push(Case {
                                request: q,
                                implementation: match &got { None => "-".into(), Some(m) => m.iter().map(|x| enc(x)).collect::<Vec<_>>().join(",") },
                                pred,
                                tag: format!("sib-group/{}{}", if got.is_none() { "complete" } else { "incomplete" }, if unambiguous { "" } else { "/ambiguous" }),
                            });
                        }
                    }
                }
            }
        }
    }
    let _ = std::fs::remove_dir_all(&root);
}

fn regex_match(p: &str, s: &str) -> bool {
    // the naming patterns of the pool, interpreted directly (no regex engine in the harness)
    match p {
        "^[A-Z]" => s.chars().next().is_some_and(|c| c.is_ascii_uppercase()),
        "^[a-z_.]+$" => !s.is_empty() && s.chars().all(|c| c.is_ascii_lowercase() || c == '_' || c == '.'),
        "\\.tsx?$" => s.ends_with(".ts") || s.ends_with(".tsx"),
        _ => true,
    }
}

/// prefix/suffix split on the single `{stem}`, empty stem rejected
fn spec_extract(name: &str, pattern: &str) -> Option<String> {
    let parts: Vec<&str> = pattern.split("{stem}").collect();
    if parts.len() != 2 { return None; }
    let (pre, suf) = (parts[0], parts[1]);
    if !name.starts_with(pre) || !name.ends_with(suf) { return None; }
    if pre.len() + suf.len() >= name.len() { return None; }
    Some(name[pre.len()..name.len() - suf.len()].to_string())
}

/// Sibling rules as the user runs them: a small git history, `check` and `check --diff HEAD~1`.
/// Which files miss a sibling is a fact about the directory, not about the change set: both runs
/// must report exactly the files the documented rule singles out.
fn e2e_diff_case(sink: &mut Sink, r: &mut Rng, bin: &str, scratch: &str) {
    use std::process::Command;
    if !sink.want() {
        sink.skip();
        return;
    }
    let dir = PathBuf::from(scratch).join(format!("g{}", sink.n));
    let _ = std::fs::remove_dir_all(&dir);
    std::fs::create_dir_all(dir.join("src")).unwrap();
    let git = |args: &[&str]| {
        let o = Command::new("git")
            .args(["-c", "user.email=v@example.invalid", "-c", "user.name=v", "-c", "commit.gpgsign=false", "-c", "init.defaultBranch=main"])
            .args(args)
            .current_dir(&dir)
            .env("GIT_CONFIG_GLOBAL", "/dev/null")
            .env("GIT_CONFIG_SYSTEM", "/dev/null")
            .output()
            .expect("git");
        o.status.success()
    };
    std::fs::write(dir.join(".sloc-guard.toml"), "version = \"2\"\n[scanner]\ngitignore = false\n[content]\nextensions = [\"rs\"]\nmax_lines = 1000\n[[structure.rules]]\nscope = \"src\"\nsiblings = [{ match = \"*.rs\", require = \"{stem}.md\" }, { group = [\"{stem}.a\", \"{stem}.b\"] }]\n").unwrap();
    let mut files: Vec<String> = vec![];
    let mut want: Vec<(String, String)> = vec![];
    for stem in ["alpha", "beta", "gamma", "delta", "eps"] {
        let has: Vec<bool> = (0..4).map(|_| r.chance(1, 2)).collect();
        for (k, ext) in ["rs", "md", "a", "b"].iter().enumerate() {
            if has[k] {
                let f = format!("src/{stem}.{ext}");
                std::fs::write(dir.join(&f), "x = 1;\n").unwrap();
                files.push(f);
            }
        }
        if has[0] && !has[1] {
            want.push((format!("src/{stem}.rs"), "missing_sibling".into()));
        }
        if has[2] != has[3] {
            want.push((format!("src/{stem}.{}", if has[2] { "a" } else { "b" }), "group_incomplete".into()));
        }
    }
    want.sort();
    let mut pred: Option<String> = None;
    if files.is_empty() || !(git(&["init", "-q"]) && git(&["add", "-A"]) && git(&["commit", "-q", "-m", "one"])) {
        let _ = std::fs::remove_dir_all(&dir);
        sink.push(Case { request: "noop".into(), implementation: "-".into(), pred: "ok".into(), tag: "e2e-diff/empty".into() });
        return;
    }
    // second commit: touch one or two files (possibly one member of a pair, possibly an unrelated one)
    let touched: Vec<String> = (0..r.range(1, 2)).map(|_| r.pick(&files).clone()).collect();
    for f in &touched {
        std::fs::write(dir.join(f), "x = 1;\ny = 2;\n").unwrap();
    }
    if !(git(&["add", "-A"]) && git(&["commit", "-q", "-m", "two"])) {
        pred = Some("could not build the git history".into());
    }
    let observe = |extra: &[&str]| -> Result<Vec<(String, String)>, String> {
        let mut argv = vec!["check", "--no-sloc-cache", "--format", "json"];
        argv.extend_from_slice(extra);
        argv.push(".");
        let o = Command::new(bin).args(&argv).current_dir(&dir).env("NO_COLOR", "1").output().expect("run sloc-guard");
        let v: serde_json::Value = serde_json::from_slice(&o.stdout).map_err(|_| format!("`{}` printed no JSON (exit {:?}): {}", argv.join(" "), o.status.code(), String::from_utf8_lossy(&o.stderr).lines().next().unwrap_or("")))?;
        let mut got = vec![];
        for x in v.get("results").and_then(|a| a.as_array()).cloned().unwrap_or_default() {
            let ty = x.get("violation_category").and_then(|c| c.get("violation_type")).and_then(|t| t.get("type")).and_then(|t| t.as_str()).unwrap_or("");
            if ty == "missing_sibling" || ty == "group_incomplete" {
                got.push((x.get("path").and_then(|p| p.as_str()).unwrap_or("").trim_start_matches("./").to_string(), ty.to_string()));
            }
        }
        got.sort();
        Ok(got)
    };
    for (label, extra) in [("check", vec![]), ("check --diff HEAD~1", vec!["--diff", "HEAD~1"])] {
        if pred.is_some() {
            break;
        }
        match observe(&extra) {
            Err(e) => pred = Some(e),
            Ok(got) => {
                if got != want {
                    pred = Some(format!("`{label}` reports sibling violations {got:?}; the rule singles out {want:?} (files {files:?}, changed in the last commit {touched:?})"));
                }
            }
        }
    }
    let _ = std::fs::remove_dir_all(&dir);
    sink.push(Case { request: "noop".into(), implementation: "-".into(), pred: pred.map_or_else(|| "ok".to_string(), |p| format!("FAIL {p}")), tag: format!("e2e-diff/{}", if want.is_empty() { "complete" } else { "missing" }) });
}

pub fn run(tier: Tier, seed: u64, out: &str) {
    let mut sink = Sink::create(out);
    let mut r = Rng::new(seed);
    let scratch = std::env::var("SGVERIF_SCRATCH").unwrap_or_else(|_| "/verif/.build/scratch/c07".to_string());
    for _ in 0..tier.scale(1_500, 60_000) {
        emit_tree(&mut sink, &mut r, &scratch);
    }
    if let Ok(bin) = std::env::var("SGVERIF_BIN") {
        for _ in 0..tier.scale(25, 400) {
            let mut rr = r.fork();
            e2e_diff_case(&mut sink, &mut rr, &bin, &scratch);
        }
    }
    sink.extra.insert("trivial_tag_prefixes".into(), serde_json::json!(["file/clean", "dir/clean"]));
    crate::globfact::flush(&mut sink);
    sink.finish(out);
}
