//! Line protocol helpers shared with the Lean driver (lean/SlocModel/Driver/Proto.lean).
use std::collections::BTreeMap;
use std::io::Write;

/// strings travel as `.`-separated hexadecimal Unicode scalar values; `_` is the empty string
pub fn enc(s: &str) -> String {
    if s.is_empty() {
        return "_".to_string();
    }
    s.chars().map(|c| format!("{:x}", c as u32)).collect::<Vec<_>>().join(".")
}

pub fn opt_num<T: std::fmt::Display>(v: Option<T>) -> String {
    v.map_or_else(|| "-".to_string(), |x| x.to_string())
}
pub fn b(v: bool) -> &'static str {
    if v { "1" } else { "0" }
}
pub fn opt_b(v: Option<bool>) -> &'static str {
    match v {
        None => "-",
        Some(true) => "1",
        Some(false) => "0",
    }
}

/// One generated case: the request line for the model, what the implementation answered,
/// the verdict of the property predicate on the implementation, and a coverage tag.
pub struct Case {
    pub request: String,
    pub implementation: String,
    /// `ok` or `FAIL <what>`
    pub pred: String,
    pub tag: String,
}

pub struct Sink {
    out: std::io::BufWriter<std::fs::File>,
    /// replay mode: only the case with this index is evaluated and written
    pub only: Option<usize>,
    /// index of the next case (counts skipped ones too, so indices are stable)
    pub n: usize,
    pub tags: BTreeMap<String, usize>,
    pub samples: Vec<String>,
    pub extra: BTreeMap<String, serde_json::Value>,
}

impl Sink {
    pub fn create(dir: &str) -> Self {
        std::fs::create_dir_all(dir).expect("outdir");
        let f = std::fs::File::create(format!("{dir}/cases.tsv")).expect("cases.tsv");
        let only = std::env::var("SGVERIF_ONLY").ok().and_then(|s| s.parse().ok());
        Self { out: std::io::BufWriter::new(f), only, n: 0, tags: BTreeMap::new(), samples: vec![], extra: BTreeMap::new() }
    }
    /// call before evaluating a case; `false` means: skip it (and call `skip`)
    pub fn want(&self) -> bool {
        self.only.is_none_or(|k| k == self.n)
    }
    pub fn skip(&mut self) {
        self.n += 1;
    }
    pub fn push(&mut self, c: Case) {
        debug_assert!(!c.request.contains('\t') && !c.request.contains('\n'));
        let imp = c.implementation.replace(['\t', '\n'], " ");
        let pred = c.pred.replace(['\t', '\n'], " ");
        writeln!(self.out, "{}\t{}\t{}\t{}\t{}", c.request, imp, pred, c.tag, self.n).expect("write");
        *self.tags.entry(c.tag).or_insert(0) += 1;
        if self.samples.len() < 5 || (self.n % 9973 == 0 && self.samples.len() < 12) {
            self.samples.push(format!("{} => {}", c.request, imp));
        }
        self.n += 1;
    }
    pub fn finish(mut self, dir: &str) {
        self.out.flush().expect("flush");
        let meta = serde_json::json!({
            "cases": self.n,
            "tags": self.tags,
            "samples": self.samples,
            "extra": self.extra,
        });
        std::fs::write(format!("{dir}/meta.json"), serde_json::to_string_pretty(&meta).unwrap()).expect("meta");
    }
}

/// run a closure, turning a panic into the observable value `panic`
pub fn guarded<F: FnOnce() -> String + std::panic::UnwindSafe>(f: F) -> String {
    match std::panic::catch_unwind(f) {
        Ok(s) => s,
        Err(_) => "panic".to_string(),
    }
}
