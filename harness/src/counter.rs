//! Shared helpers for the counter properties C02–C04: syntax encoding for the model driver,
//! the three real entry points, per-line classes of the implementation.
use std::panic::{AssertUnwindSafe, catch_unwind};

use sloc_guard::counter::{CountResult, LineStats, SlocCounter};
use sloc_guard::language::{CommentSyntax, LanguageRegistry, MultiLineComment, PatternKind};

use crate::proto::{b, enc};
use crate::rng::Rng;

pub fn kind_char(k: &PatternKind) -> &'static str {
    match k {
        PatternKind::Static => "s",
        PatternKind::LuaLongBracket => "l",
        PatternKind::RustRawString => "r",
    }
}

/// `<ns> s… <nm> (start stop nest linestart kind)…`
pub fn enc_syntax(s: &CommentSyntax) -> String {
    let mut out = format!("{}", s.single_line.len());
    for x in &s.single_line {
        out += &format!(" {}", enc(x));
    }
    out += &format!(" {}", s.multi_line.len());
    for m in &s.multi_line {
        out += &format!(
            " {} {} {} {} {}",
            enc(&m.start), enc(&m.end), b(m.supports_nesting), b(m.must_be_at_line_start), kind_char(&m.pattern_kind)
        );
    }
    out
}

pub fn builtins() -> Vec<(String, CommentSyntax)> {
    LanguageRegistry::default().all().iter().map(|l| (l.name.clone(), l.comment_syntax.clone())).collect()
}

#[derive(Clone, PartialEq, Eq, Debug)]
pub enum Counted {
    Stats(LineStats),
    IgnoredFile,
    Panic,
    IoError,
}

pub fn count_str(syn: &CommentSyntax, text: &str) -> Counted {
    match catch_unwind(AssertUnwindSafe(|| SlocCounter::new(syn).count(text))) {
        Ok(CountResult::Stats(s)) => Counted::Stats(s),
        Ok(CountResult::IgnoredFile) => Counted::IgnoredFile,
        Err(_) => Counted::Panic,
    }
}

pub fn count_bytes(syn: &CommentSyntax, bytes: &[u8]) -> Counted {
    match catch_unwind(AssertUnwindSafe(|| SlocCounter::new(syn).count_from_bytes(bytes))) {
        Ok(CountResult::Stats(s)) => Counted::Stats(s),
        Ok(CountResult::IgnoredFile) => Counted::IgnoredFile,
        Err(_) => Counted::Panic,
    }
}

pub fn count_reader(syn: &CommentSyntax, bytes: &[u8]) -> Counted {
    match catch_unwind(AssertUnwindSafe(|| SlocCounter::new(syn).count_reader(std::io::Cursor::new(bytes)))) {
        Ok(Ok(CountResult::Stats(s))) => Counted::Stats(s),
        Ok(Ok(CountResult::IgnoredFile)) => Counted::IgnoredFile,
        Ok(Err(_)) => Counted::IoError,
        Err(_) => Counted::Panic,
    }
}

/// byte offsets just past each physical line (split at `\n`; a non-empty tail counts)
pub fn line_ends(text: &str) -> Vec<usize> {
    let mut ends: Vec<usize> = text.match_indices('\n').map(|(i, _)| i + 1).collect();
    if ends.last().copied().unwrap_or(0) < text.len() {
        ends.push(text.len());
    }
    ends
}

/// Per-line classes of the implementation, obtained by counting every prefix that ends at a
/// line boundary (`c` code, `m` comment, `b` blank, `i` ignored).  `Err` describes a prefix step
/// that is not a unit increment (a C03 violation in itself).
pub fn impl_classes(syn: &CommentSyntax, text: &str) -> Result<String, String> {
    let mut prev = LineStats::new();
    let mut out = String::new();
    for (k, end) in line_ends(text).into_iter().enumerate() {
        let cur = match count_str(syn, &text[..end]) {
            Counted::Stats(s) => s,
            other => return Err(format!("prefix of {} lines counts as {:?} although the whole file has statistics", k + 1, other)),
        };
        let d = (
            cur.total as i64 - prev.total as i64, cur.code as i64 - prev.code as i64, cur.comment as i64 - prev.comment as i64,
            cur.blank as i64 - prev.blank as i64, cur.ignored as i64 - prev.ignored as i64,
        );
        out.push(match d {
            (1, 1, 0, 0, 0) => 'c',
            (1, 0, 1, 0, 0) => 'm',
            (1, 0, 0, 1, 0) => 'b',
            (1, 0, 0, 0, 1) => 'i',
            _ => return Err(format!("appending line {} changed the counters by {:?}", k + 1, d)),
        });
        prev = cur;
    }
    Ok(out)
}

pub fn fmt_counted(c: &Counted, classes: &str) -> String {
    match c {
        Counted::Stats(s) => format!("stats {} {} {} {} {} {}", s.total, s.code, s.comment, s.blank, s.ignored, classes),
        Counted::IgnoredFile => "ignored-file".to_string(),
        Counted::Panic => "panic".to_string(),
        Counted::IoError => "io-error".to_string(),
    }
}

const MARKER_BITS: &[&str] = &["/", "*", "#", "\"", "'", "-", "[", "]", "=", "r", "<", "!", ">", "\\", "a", " "];

/// a comment syntax expressible in `[languages.*]` (static, non-nesting markers), markers drawn
/// from a small alphabet so that empty, overlapping and quote-like markers are common
pub fn random_custom_syntax(r: &mut Rng, unrestricted: bool) -> CommentSyntax {
    let marker = |r: &mut Rng, allow_empty: bool| -> String {
        let n = if allow_empty && r.chance(1, 8) { 0 } else { r.range(1, 3) };
        (0..n).map(|_| *r.pick(MARKER_BITS)).collect()
    };
    let single: Vec<String> = (0..r.below(3)).map(|_| marker(r, true)).collect();
    let multi: Vec<MultiLineComment> = (0..r.below(3))
        .map(|_| {
            let mut m = MultiLineComment::new(&marker(r, true), &marker(r, true));
            if unrestricted {
                if r.chance(1, 3) { m = m.with_nesting(); }
                if r.chance(1, 4) { m = m.at_line_start(); }
                if r.chance(1, 6) { m = m.with_pattern_kind(PatternKind::LuaLongBracket); }
                if r.chance(1, 6) { m = m.with_pattern_kind(PatternKind::RustRawString); }
            }
            m
        })
        .collect();
    CommentSyntax { single_line: single, multi_line: multi }
}
