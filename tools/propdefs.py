"""Per-property registry used by ./check: which Lean modules carry the property theorems,
which theorem names must exist, what the correspondence covers, what is trusted."""

COMMON_TRUST = [
    "Lean 4.33.0 kernel; axioms limited to propext, Classical.choice, Quot.sound (audited per theorem by #print axioms on every run)",
    "hand-written Lean model tied to /repo by the differential harness (/verif/harness) on every run; generators, canonicalisers and tools/extract.py are trusted to be honest comparisons",
]

HOOK_COMMITS = ["0930f64"]

# properties deliberately not claimed, with the reason (empty: every property is meant to be claimed)
NOT_CLAIMED = {}

PROPS = {
    "C05": {
        "modules": ["SlocModel.Props.C05"],
        "required_theorems": [
            "verdict_trichotomy", "effective_def", "ignored_never_counts", "last_match_wins", "no_match_iff",
            "limit_source", "warn_precedence", "verdict_mono_count", "verdict_mono_global_limit",
            "verdict_mono_rule_limit", "warn_le_limit_partial", "explain_coherent", "explain_excluded",
        ],
        "technique": "Lean 4 theorems over a model of ThresholdChecker (incl. exact f64 rounding) + differential correspondence with the real checker",
        "level_text": "Machine-checked theorems (all counts, rule lists, match vectors, thresholds as raw f64 bit patterns) about a Lean model of ThresholdChecker/compute_effective_stats; the model is compared with the real code on ~70k (quick) / 1.5M (thorough) generated cases per run, together with an independent oracle of the property text. Proof is the right level because the property quantifies over unbounded counts and arbitrary rule lists.",
        "level_note": "Trusted: Lean kernel + propext/Classical.choice/Quot.sound; the harness and its globset match vector; limits < 2^53 for warn-point <= limit. The theorem is about the model; the correspondence samples.",
        "trivial_tag_prefixes": ["passed/global/m0"],
        "rule": "exhaustive small scope (counts 0..12 x limits 0..10 x 12 thresholds x 5 rule shapes) followed by "
                "SplitMix64-sampled configurations (0-3 overlapping rules from a 12-pattern pool, 12 paths incl. ./-prefixed "
                "and extension-less, optional fields present/absent, CLI threshold override, limits up to 2^53, thresholds "
                "outside [0,1]/NaN/inf in a separate stream); a case is non-trivial unless no rule matches and the file passes; "
                "distinct = distinct request lines",
        "explanation": "Theorems about the Lean model of ThresholdChecker (trichotomy, last-match-wins, warn precedence, "
                       "monotonicity in count and limit incl. the exact f64 percentage, explain coherence) + differential run "
                       "of the real ThresholdChecker::{should_process,get_skip_settings_for_path,check,explain} and "
                       "compute_effective_stats against the model driver, + an independent Rust oracle of the property text",
        "trusted_base": COMMON_TRUST + [
            "globset matching is a parameter of the model (one match bit per rule, computed by the harness with globset on the ./-stripped path)",
            "f64: exact integer model of `usize as f64`, one IEEE multiplication, ceil and the saturating `as usize` cast (SlocModel.F64); validated against the hardware on every generated threshold/limit pair",
        ],
        "assumptions": [
            "limits below 2^53 lines for warn_le_limit_partial (a double represents them exactly)",
            "the match vector the harness computes with globset equals what GlobSet::matches returns inside ThresholdChecker (checked indirectly: a wrong vector shows up as a disagreement)",
        ],
    },
}
