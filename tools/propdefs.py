"""Per-property registry used by ./check: which Lean modules carry the property theorems,
which theorem names must exist, what the correspondence covers, what is trusted."""

COMMON_TRUST = [
    "Lean 4.33.0 kernel; axioms limited to propext, Classical.choice, Quot.sound (audited per theorem by #print axioms on every run)",
    "hand-written Lean model tied to /repo by the differential harness (/verif/harness) on every run; generators, canonicalisers and tools/extract.py are trusted to be honest comparisons",
]

HOOK_COMMITS = ["0930f64", "8ed103b", "b4e0768"]

# properties deliberately not claimed, with the reason (empty: every property is meant to be claimed)
NOT_CLAIMED = {}

COUNTER_TRUST = [
    "std text primitives are modelled, not verified: str::lines/BufRead::lines, str::trim (Unicode White_Space table), String::from_utf8_lossy (the harness decodes before sending text to the model), usize::from_str, str::find/contains",
    "counters are unbounded Nat (no file has 2^64 lines; MultiLineState depth never saturates)",
    "character indices stand for the byte offsets the Rust code compares (strictly monotone within a line)",
]

PROPS = {
    "C02": {
        "modules": ["SlocModel.Props.C02"],
        "required_theorems": [
            "blank_is_blank", "in_comment_is_comment", "plain_is_code", "line_comment_is_comment",
            "code_then_line_comment_is_code", "directive_needs_comment", "ignore_file_needs_comment", "ignore_next_step",
            "ignore_next_exact", "track_state_commutes", "ignore_block_step", "ignore_start_end", "ignore_file_iff",
            "builtin_markers_nonempty", "only_lua_overlaps", "only_python_quote_markers",
            "c02_quote_in_block_fails", "c02_opener_in_line_comment_fails", "c02_multi_line_triple_quote_fails",
            "c02_triple_quote_in_string_fails",
        ],
        "technique": "Lean 4 theorems on the classification ladder and ignore directives (all syntaxes, all lines) + kernel-checked refutation witnesses + grammar-labelled differential correspondence",
        "level_text": "Tier A: machine-checked theorems, for every comment syntax and every line, that the classification ladder of process_line gives blank/comment/code exactly under the stated lexical conditions and that ignore-next/ignore-start/ignore-end/ignore-file act on exactly the lines the property names (whole-line line comments only). Tier B (token level): the unrestricted statement is refuted in Lean by four decide-checked witnesses, each reproduced on the real counter by the harness and listed in known_findings.json; the hazard-free grammar is covered by an exhaustive enumeration of all atom sequences up to length 3 (quick) / 4 (thorough) for each of the 20 built-in languages plus sampled longer programs, every line's class known by construction. The enumeration is a test, not a theorem.",
        "level_note": "Trusted: Lean kernel + standard axioms; the grammar generator's labels; std text primitives modelled. The token-level half is validated by exhaustive small-scope testing, not proved.",
        "trivial_tag_prefixes": [],
        "rule": "all sequences of 1..3 (quick) / 1..4 (thorough) atoms from a per-language alphabet of 9-17 lexical atoms (blank, code, string holding every marker + an escaped quote + a directive, line comment, code+line comment, 1- and 2-line block comments, nested block, block holding a line marker, Lua long brackets of level 0 and 2, Ruby =begin/=end, triple-quote block, ignore-next 1/2, ignore-start, ignore-end), then sampled programs of 1-9 pieces with random indentation (incl. NBSP), CRLF, escapes, raw strings, nesting depth <= 3, long-bracket level <= 3, unicode; hazard-free stream, one-hazard streams, mixed stream, directive-in-code and ignore-file streams; truth known by construction; distinct = distinct request lines",
        "explanation": "ladder/directive theorems + refutation witnesses in Lean; per-line differential comparison of the Lean model with SlocCounter on grammar programs; the property predicate (implementation classes = labels) evaluated on the real code, failures attributed to known findings by structural repair",
        "trusted_base": COMMON_TRUST + COUNTER_TRUST + ["the grammar's labels (harness/src/grammar.rs) are the ground truth"],
        "assumptions": ["per-line classes of the implementation are obtained by counting every line-boundary prefix"],
    },
    "C03": {
        "modules": ["SlocModel.Props.C03"],
        "required_theorems": [
            "count_total", "count_cases", "skStep_consumed", "trySkipRaw_bounds", "marker_skip_bounds",
            "entry_points_agree", "count_deterministic", "append_mono", "append_ignored_file_only_by_directive",
        ],
        "technique": "Lean 4 theorems over a line-by-line model of SlocCounter/CommentDetector (all syntaxes, all texts) + differential correspondence on random byte strings",
        "level_text": "Machine-checked theorems for every comment-syntax value and every text: total = number of physical lines = code+comment+blank+ignored; every loop step consumes between 1 and the remaining number of characters (termination, no out-of-range index); appending a line only increments one counter unless it is an ignore-file directive inside the scan window. The Lean model is compared per line with SlocCounter::{count,count_from_bytes,count_reader} on 40k (quick) / 2M (thorough) generated byte strings x built-in and random custom syntaxes, with panics caught per case.",
        "level_note": "Trusted: Lean kernel + standard axioms; harness; std text primitives modelled (lines, trim, lossy decoding, usize parsing). Absence of panics in the real code is argued from the index-bound lemmas and observed by catch_unwind, not proved of the Rust itself.",
        "trivial_tag_prefixes": [],
        "rule": "SplitMix64-generated byte strings: line-structured (blank / directive / comment-like / token soup lines over an alphabet of block and line markers, quotes, escapes, Lua brackets, raw-string delimiters, Unicode whitespace, NUL, multi-byte characters, CR/LF variants) and unstructured soups, 1 in 9 with invalid UTF-8 spliced in, 1 in 997 with a 100k-character line; syntaxes: the 20 built-ins, random [languages.*]-expressible syntaxes (empty/overlapping/quote-like markers) and unrestricted syntax values; distinct = distinct request lines (every case is non-trivial: it exercises the full classifier)",
        "explanation": "count_total/append_mono/index-bound theorems about the Lean counter model + per-line differential comparison of the model with the three real entry points + direct predicates (no panic, total = physical lines, sum, entry points agree, repeated call agrees, append monotone) evaluated on the real code",
        "trusted_base": COMMON_TRUST + COUNTER_TRUST,
        "assumptions": ["String::from_utf8_lossy is applied by the harness before text reaches the model", "per-line classes of the implementation are obtained by counting every line-boundary prefix (valid because of append monotonicity, itself checked)"],
    },
    "C04": {
        "modules": ["SlocModel.Props.C04"],
        "required_theorems": ["run_append", "classifyLines_eq_run", "insert_state_neutral", "blank_insert_invariant",
                              "comment_insert_invariant_partial", "c04_opener_in_comment_fails"],
        "technique": "Lean 4 theorems: line insertion/deletion as a fold-state invariant (all syntaxes, files, positions) + refutation witness + relational differential correspondence",
        "level_text": "Machine-checked: for every syntax, every file without an ignore-file directive and every position whose state is outside block comments and ignore regions, inserting or deleting a whitespace-only line (full statement) or a whole-line line comment on which no block start is found (partial: the unrestricted statement is refuted by a decide-checked witness, reproduced on the real counter and listed as a known finding) leaves every other line's class and the code count unchanged. The model is compared with the real counter on 12k generated and 150 real-source insertions per quick run (400k / 5k thorough).",
        "level_note": "Trusted: Lean kernel + standard axioms; harness; std text primitives modelled. Insertion points are chosen by probing the real tool with a code line.",
        "trivial_tag_prefixes": ["grammar/no-free-point", "repo-src/no-free-point"],
        "rule": "base file: hazard-free grammar program of 1-8 pieces in a random built-in language, or a real .rs file of /repo/src (<= 400 lines) with Rust syntax; insertion point: random, accepted when a probe code line inserted there is classified code by the real tool and changes no other line; inserted line: whitespace-only (incl. NBSP, ideographic space) or indentation + a line prefix of the language + a body from a corpus of quotes, escapes, closers, unicode, raw-string and triple-quote fragments, 1 in 5 with a block opener; distinct = distinct request lines; trivial = no free insertion point found",
        "explanation": "insert_state_neutral + blank/comment corollaries in Lean; driver op `insert` compared with the real counter's per-line classes before and after; predicate: code count and all other classes unchanged",
        "trusted_base": COMMON_TRUST + COUNTER_TRUST,
        "assumptions": ["files without an ignore-file directive (inserting a line shifts the 10-line scan window)"],
    },
    "C06": {
        "modules": ["SlocModel.Props.C06"],
        "required_theorems": ["count_failed_iff", "count_warning_iff", "warnFrom_absolute", "warnFrom_percentage", "warnLimit_precedence",
                              "unlimited_checks_nothing", "zero_forbids_any", "last_rule_wins", "lastMatching_none_iff",
                              "field_inheritance", "no_rule_uses_globals", "relative_depth_def", "base_depth_examples",
                              "explain_coherent_dir", "step_files", "step_dirs", "counts_exact_files", "counts_exact_dirs", "not_counted"],
        "technique": "Lean 4 theorems over a model of StructureChecker and of the unified scanner's directory-count fold (all entry sequences, all rule lists, exact f64 percentages) + differential correspondence in-process and on materialised trees with both walker backends",
        "level_text": "Machine-checked for every directory-entry sequence (any width, depth, hidden / ignored / excluded / count-excluded / non-regular entries): after the walk the file and sub-directory figures of every directory equal the number of its immediate entries that the walker yields and that are neither scanner- nor count-excluded (step-wise invariant lifted by induction over the entry list); for every limit and warn configuration a figure fails iff it exceeds the limit, warns iff within the limit and at or above an absolute warn count / above the rounded-up percentage (exact IEEE arithmetic), -1 disables and 0 forbids; limits come from the last declared rule whose scope matches, unset fields inherit the global ones, relative depth is measured from the scope's fixed prefix, and explain reports the same rule and limits. Compared with StructureChecker::{check,explain} on 60k (2M) generated (config, stats) pairs and with the real CompositeScanner on 300 (10k) trees on disk under both backends, alongside an independent read_dir-style count. The defect found (exclusive absolute warn count) was repaired (fix: 809cf27).",
        "level_note": "Trusted: Lean kernel + standard axioms; harness; globset matching and .gitignore evaluation are parameters (the ignore file uses basename patterns only, whose meaning needs no interpretation); walkdir / ignore yield parents before children. Roots are spelled canonically here (spelling is C08's subject); root-anchored excludes of nested same-named directories are C08/C01's finding and avoided.",
        "trivial_tag_prefixes": ["struct-dir/m0/clean"],
        "rule": "struct-dir: global limits from {unset,-1,0,1,2,5,10,50}, 0-3 rules with scopes from a 10-pattern pool (overlapping on purpose) and every subset of optional warn fields (absolute below the limit as the gate demands, 8 thresholds incl. 0.56/0.1), relative_depth, directory from an 8-path pool, counts 0-13 / 0-7 / depth 0-6; walk: random trees (<= 5 children per directory, depth <= 4, hidden entries, empty directories, symlinks, *.log / tmp/ / secret.txt git-ignored, **/vendor/** **/*.gen.rs **/generated/** **/.hidden/** excluded, *.md **/docs/** count-excluded), each scanned with a random backend; distinct = distinct request lines",
        "explanation": "verdict / last-rule / inheritance / counts-exact theorems + driver ops struct-dir, walk, base-depth compared with the real checker and scanner + an independent oracle of the property text",
        "trusted_base": COMMON_TRUST + ["globset and the ignore crate are parameters", "f64: exact integer model (SlocModel.F64)"],
        "assumptions": ["limits validated >= -1 (StructureChecker::new rejects others)"],
    },
    "C09": {
        "modules": ["SlocModel.Props.C09"],
        "required_theorems": ["unrecorded_stays_failed", "non_masking", "update_all_records", "new_mode_superset",
                              "partial_modes_keep_other_kind", "round_trip_fresh", "round_trip_exit", "c09_new_mode_without_flag_drops"],
        "technique": "Lean 4 theorems over a model of the baseline pipeline (apply / ratchet / update / exit) for all result lists, baselines and flag sets + differential correspondence on histories driven through the real binary",
        "level_text": "Machine-checked for every result list, baseline file and flag combination: a failed result whose path the loaded baseline does not record stays failed and forces exit 1 unless --warn-only (non-masking); an `all` update records every violating (failed or grandfathered) line-, file- and subdirectory-count result, so a baseline check of the unchanged state grandfathers them and exits 0 unless another kind of violation or a warning-as-error remains, and updating again is idempotent; `new` never drops a loaded entry; content / structure modes keep the loaded entries of the other kind. The model is compared with the real binary on 240 (12k thorough) steps of edit/update/check histories with random flag sets, thread counts and ratchet modes. Two defects found by this check were repaired (fix: commits aa9e349, bccd8a3); one remains as a known finding (`new` without --baseline).",
        "level_note": "Trusted: Lean kernel + standard axioms; harness (raw results of each project state come from a plain full `check` of the same binary); serde_json; path spelling is normalised in the harness (C08's subject).",
        "trivial_tag_prefixes": ["C09/plain"],
        "rule": "histories of 8 steps on a 5-file / 4-directory project (content limit 5, structure limits 2 files / 1 dir, a scoped rule with a deny list): each step edits the project (grow, shrink, create, delete, add a denied file) and runs `check` with a random flag set: --baseline given or not, --update-baseline in {all, content, structure, new}, --ratchet in {warn, auto, strict} by flag or [baseline] config, --warn-only, warnings-as-errors, 1-16 threads; distinct = distinct request lines; trivial = no baseline flag at all",
        "explanation": "non_masking / round_trip / update theorems + driver op `baseline-step` predicting statuses, exit code and the baseline file after each real `check` run + direct predicates on the observed behaviour",
        "trusted_base": COMMON_TRUST + ["serde_json (de)serialisation of the baseline file and SHA-256 content hashes are parameters", "rayon's order-preserving collect; the processed set of a fail-fast run is observed from the output"],
        "assumptions": ["baseline keys and result paths are compared after stripping a leading ./ (spelling is C08)"],
    },
    "C10": {
        "modules": ["SlocModel.Props.C10"],
        "required_theorems": ["stale_sound", "unevaluated_never_stale", "violating_never_stale", "strict_needs_real_stale",
                              "ratchet_subset", "warn_strict_no_write", "stale_of_filtered", "auto_then_clean"],
        "technique": "Lean 4 theorems over the ratchet model for all baselines, result lists, evaluated sets and modes + differential correspondence on histories with restricted runs",
        "level_text": "Machine-checked for every baseline, result list, evaluated set and mode: an entry is stale only if its path was evaluated in this run and no result at that path still violates (failed or grandfathered); unevaluated or still-violating entries are never reported, never removed and never make strict fail; without --update-baseline the file afterwards has only entries of the file before, unchanged, and only auto writes; after an auto tightening a rerun on the same state finds nothing stale. Compared with the real binary on 240 (12k) history steps including --files subsets, fail-fast under 1-16 threads and ratchet by flag and by configuration. The defect found (ratchet over unevaluated paths) was repaired (fix: efa3468).",
        "level_note": "Trusted: Lean kernel + standard axioms; harness; the evaluated set handed to the model is {paths with a result} plus the scanned directories, mirroring the repaired runner. --diff/--staged narrowing is covered by the theorem (any evaluated set) but the histories use --files and fail-fast.",
        "trivial_tag_prefixes": ["C10/plain"],
        "rule": "as C09, with a ratchet mode on every step, 1/3 of the steps restricted to 1-3 explicit files, 1/4 with fail-fast; after every auto step the same command is run again; distinct = distinct request lines",
        "explanation": "stale_sound / ratchet_subset / auto_then_clean theorems + `baseline-step` correspondence + predicates (entry removed or reported => evaluated and not violating; subset; no rewrite; rerun clean)",
        "trusted_base": COMMON_TRUST + ["serde_json (de)serialisation of the baseline file and SHA-256 content hashes are parameters", "rayon's order-preserving collect; the processed set of a fail-fast run is observed from the output"],
        "assumptions": ["a deleted file is not evaluated, so its entry is (by the property's wording) left alone"],
    },
    "C11": {
        "modules": ["SlocModel.Props.C11"],
        "required_theorems": ["processed_all", "failure_independent_of_schedule", "no_ff_deterministic", "grandfathered_does_not_trigger",
                              "exit_independent", "seq_admissible", "par_admissible"],
        "technique": "Lean 4 theorems quantifying over every admissible processed set (hence every interleaving of any number of fail-fast workers) + differential correspondence under 1-16 threads and shuffled file orders",
        "level_text": "Machine-checked: the set of files a fail-fast run processes is admissible (files are skipped only after a processed file that is an un-grandfathered failure) for every one-worker order (seq_admissible) and for every interleaving of any number of workers reading and setting the shared flag (par_admissible, by induction over the trace); for every admissible set the run contains an un-grandfathered failure iff the full run does, so the exit code is the same with and without fail-fast; without fail-fast the result list is the input list. A grandfathered failure never triggers. The defect found (grandfathered first failure -> exit 0) was repaired (fix: 075eb38). Compared with the real binary on 240 (12k) steps: each fail-fast run is re-run without fail-fast and the exit codes compared; the observed processed set must be admissible.",
        "level_note": "Trusted: Lean kernel + standard axioms; harness; rayon's order-preserving collect; Relaxed atomics are modelled as a flag that can only be observed set after it was set (no out-of-thin-air values). Warnings-as-errors with fail-fast can legitimately differ (a skipped warning) — the theorem and the comparison are about failures, as the property states.",
        "trivial_tag_prefixes": ["C11/plain"],
        "rule": "as C09; 3/4 of the steps use fail-fast by flag or [check] config under 1/2/4/8/16 rayon threads, 1/3 of them with a shuffled explicit --files list (each order is a schedule under one worker); 1/4 of the steps refresh the baseline so that grandfathered failures are met first; distinct = distinct request lines",
        "explanation": "failure_independent_of_schedule / par_admissible theorems + `baseline-step` correspondence on the observed processed set + exit code with vs without fail-fast",
        "trusted_base": COMMON_TRUST + ["serde_json (de)serialisation of the baseline file and SHA-256 content hashes are parameters", "rayon's order-preserving collect; the processed set of a fail-fast run is observed from the output"],
        "assumptions": ["exit comparison ignores steps that also rewrite the baseline"],
    },
    "C15": {
        "modules": ["SlocModel.Props.C15"],
        "required_theorems": ["retention_bounds", "age_saturates", "snapshot_appends_one", "never_rewrites", "new_entry_kept",
                              "interval_skip_iff", "force_overrides", "dry_run_read_only", "since_selects", "delta_exact",
                              "significant_iff", "unit_values", "parse_duration_spec", "parse_duration_rejects",
                              "duration_overflow_rejected", "restricted_check_never_snapshots", "auto_snapshot_iff",
                              "c15_auto_snapshot_ignores_content_excluded"],
        "technique": "Lean 4 theorems over a model of TrendHistory / parse_duration / the snapshot decision (all histories, clocks, configurations) + differential correspondence in-process and on the real binary with a pinned clock",
        "level_text": "Machine-checked for every history (no monotonicity of timestamps assumed), every clock value and every retention configuration: a recorded snapshot is `retain(history ++ [entry])`, a sublist of the old history plus the new entry; retention bounds the length, removes exactly the entries older than the (saturating) age limit, keeps the newest and, with a pinned clock and max_entries >= 1, the entry just written; skipped iff inside min_interval_secs and not forced; dry-run and restricted checks never write; --since selects the last recorded entry at or before now - D; deltas are exact integer differences; significance iff files changed or |code delta| > min_code_delta; accepted duration strings are digits + a unit of the (regenerated) table with an in-range product. Compared with the TrendHistory API on 40k cases (2M thorough) and with 120 (3000) real CLI steps (snapshot / --force / --dry-run / check with auto-snapshot / check --files / stats) under SLOC_GUARD_VERIF_NOW, recorded totals checked against `stats summary`.",
        "level_note": "Trusted: Lean kernel + standard axioms; harness; serde_json round trip of history.json; the three clock reads inside one snapshot are pinned to one value by the verif hook (a tick between them is not explored). One sub-claim is false of the pinned code and listed as a known finding (auto-snapshot omits content-excluded files).",
        "trivial_tag_prefixes": ["cli/stats", "cli/check-no-auto"],
        "rule": "in-process: histories of 0-5 entries with equal / close / far-apart / backwards timestamps, retention configurations from a lattice (max_entries in {-,0,1,2,3,10}, max_age_days in {-,0,1,2,30} and u64 extremes, min_interval in {-,0,1,60,3600,86400}), clock at / before / after the last entry; duration strings: a 48-string corpus (units, case, whitespace, Kelvin sign, fullwidth and Arabic digits, signs, overflow boundaries) + grammar x mutation; CLI: 12 (300) scratch projects x 10 steps with clock jumps incl. backwards, project edits, every command kind; distinct = distinct request lines",
        "explanation": "theorems on shouldAdd/applyRetention/snapshot/findAtOrBefore/delta/parseDuration + differential comparison with TrendHistory::{should_add,apply_retention,compute_delta,compute_delta_since}, TrendDelta::is_significant, parse_duration and the history.json written by the real binary",
        "trusted_base": COMMON_TRUST + ["serde_json (de)serialisation of history.json", "SLOC_GUARD_VERIF_NOW pins SystemTime::now() (hook b4e0768)"],
        "assumptions": ["one clock value per invocation"],
    },
    "C16": {
        "modules": ["SlocModel.Props.C16"],
        "required_theorems": ["merge_child_scalar_wins", "merge_arrays_concat", "merge_arrays_reset", "merge_single_key",
                              "no_marker_survives", "marker_elsewhere_rejected", "finish_ok_noMarker", "resolve_terminates",
                              "resolve_default_terminates", "too_deep", "cycle_detected", "no_extends_is_leaf",
                              "resolve_fold", "foldLeafFirst_eq_chainFold"],
        "technique": "Lean 4 theorems over a model of merge.rs/extends.rs (mutual inductive TOML values; resolve = left fold; termination for every reference graph) + differential correspondence on a mock file system and the real binary",
        "level_text": "Machine-checked for all TOML values and all reference graphs: the documented merge (child scalar wins, arrays parent++child unless the child starts with $reset, per-key table merge); validation accepted implies no reset element remains in any array after stripping, and a marker at any index > 0 is rejected; the resolver never exceeds maxExtendsDepth+2 nested calls whatever the graph (so it always terminates), reports a too-deep chain and a revisited name as errors carrying the chain, treats a file without a string `extends` as a leaf, and on every acyclic chain of at most maxExtendsDepth+1 local files returns exactly the left fold of finish-after-merge from base to leaf. MAX_EXTENDS_DEPTH and $reset are regenerated from the source on every run. The model is compared with ExtendsResolver on a mock FileSystem (6k graphs quick / 300k thorough: chains 1..13, cycles, self-loops, missing files, presets, absolute/relative/dotted spellings, non-string extends) and with merge_toml_values / validate_reset_positions / strip_reset_markers on generated value pairs; flattening and --no-extends are checked through FileConfigLoader and the real binary.",
        "level_note": "Trusted: Lean kernel + standard axioms; harness; toml parsing/printing and path canonicalisation are parameters (the harness resolves reference spellings with the same mock file system the real resolver uses); remote references belong to C18. Associativity of merge (the algebraic reason flattening works) is validated by the flattening correspondence, not proved.",
        "trivial_tag_prefixes": [],
        "rule": "reference graphs over 13 file names: chain length 1-5 (5/6) or 10-13 (1/6), base twist in {none, preset, cycle back into the chain, missing file, unknown preset, non-string extends}, each reference spelled absolute / relative with .. / ./ relative / dotted absolute; members are configuration-shaped TOML tables (real section and field names, string arrays and rule-table arrays with reset markers first (1/4) and, in the wild stream, at later positions, scalar-vs-table conflicts, nested arrays, marker as scalar); plus value pairs for merge/finish and 12 CLI --no-extends scenarios; distinct = distinct request lines",
        "explanation": "theorems on merge/strip/validate/resolve + differential comparison of the resolved toml::Value (canonical, keys sorted) or error kind and chain + an independent Rust left-fold oracle + flatten / --no-extends predicates on the real loader and binary",
        "trusted_base": COMMON_TRUST + ["toml parse/print and serde are library behaviour (parameter)", "path canonicalisation is a parameter (mock FileSystem)"],
        "assumptions": ["table keys are unique (TOML guarantees it)"],
    },
    "C05": {
        "modules": ["SlocModel.Props.C05"],
        "required_theorems": [
            "verdict_trichotomy", "effective_def", "ignored_never_counts", "last_match_wins", "no_match_iff",
            "limit_source", "warn_precedence", "verdict_mono_count", "verdict_mono_global_limit",
            "verdict_mono_rule_limit", "warn_le_limit_partial", "explain_coherent", "explain_excluded",
        ],
        "technique": "Lean 4 theorems over a model of ThresholdChecker (incl. exact f64 rounding) + differential correspondence with the real checker",
        "level_text": "Machine-checked theorems (all counts, rule lists, match vectors, thresholds as raw f64 bit patterns) about a Lean model of ThresholdChecker/compute_effective_stats; the model is compared with the real code on ~70k (quick) / 1.5M (thorough) generated cases per run, together with an independent oracle of the property text. Proof is the right level because the property quantifies over unbounded counts and arbitrary rule lists.",
        "level_note": "Trusted: Lean kernel + propext/Classical.choice/Quot.sound; the harness and its globset match vector; limits < 2^53 for warn-point <= limit. The theorem is about the model; the correspondence samples.",
        "trivial_tag_prefixes": ["passed/global/m0"],
        "rule": "exhaustive small scope (counts 0..12 x limits 0..10 x 12 thresholds x 5 rule shapes) followed by "
                "SplitMix64-sampled configurations (0-3 overlapping rules from a 12-pattern pool, 12 paths incl. ./-prefixed "
                "and extension-less, optional fields present/absent, CLI threshold override, limits up to 2^53, thresholds "
                "outside [0,1]/NaN/inf in a separate stream); a case is non-trivial unless no rule matches and the file passes; "
                "distinct = distinct request lines",
        "explanation": "Theorems about the Lean model of ThresholdChecker (trichotomy, last-match-wins, warn precedence, "
                       "monotonicity in count and limit incl. the exact f64 percentage, explain coherence) + differential run "
                       "of the real ThresholdChecker::{should_process,get_skip_settings_for_path,check,explain} and "
                       "compute_effective_stats against the model driver, + an independent Rust oracle of the property text",
        "trusted_base": COMMON_TRUST + [
            "globset matching is a parameter of the model (one match bit per rule, computed by the harness with globset on the ./-stripped path)",
            "f64: exact integer model of `usize as f64`, one IEEE multiplication, ceil and the saturating `as usize` cast (SlocModel.F64); validated against the hardware on every generated threshold/limit pair",
        ],
        "assumptions": [
            "limits below 2^53 lines for warn_le_limit_partial (a double represents them exactly)",
            "the match vector the harness computes with globset equals what GlobSet::matches returns inside ThresholdChecker (checked indirectly: a wrong vector shows up as a disagreement)",
        ],
    },
}
