#!/usr/bin/env python3
"""regenerates seeded/README.md from the meta.json files"""
import json, glob, os
rows = []
for m in sorted(glob.glob("/verif/seeded/*/meta.json")):
    d = json.load(open(m))
    rows.append((d["id"], d["property"], d["what_it_changes"], d.get("needs_to_manifest", ""), d.get("detection", ""), d.get("detected_by", "")))
out = ["# Seeded changes", "",
       "Realistic changes to `/repo` written by independent sub-agents (given only a property's text and a scratch worktree),",
       "each confirmed to compile, to pass the pinned suite, and to break the property (demonstration in the seed's directory).",
       "`tools/seed_try.sh <seed>` applies one to `/repo`, runs the property's quick check and undoes it.", "",
       "| seed | property | what it changes | needs to manifest | detection | detected by |", "|---|---|---|---|---|---|"]
for r in rows:
    out.append("| " + " | ".join(x.replace("|", "\\|").replace("\n", " ") for x in r) + " |")
open("/verif/seeded/README.md", "w").write("\n".join(out) + "\n")
print(len(rows), "seeds")
