#!/bin/bash
# Applies one behaviour-preserving change to /repo, runs every quick check, undoes the change.
# usage: benign_try.sh <name under /verif/benign>     (the checks must all stay silent)
B=$1
cd /verif || exit 2
git -C /repo status --short | grep -q . && { echo "/repo not clean"; exit 2; }
git -C /repo apply /verif/benign/$B/patch.diff 2>/dev/null || git -C /repo apply --3way /verif/benign/$B/patch.diff || { echo "=== $B: patch does not apply"; git -C /repo reset -q; git -C /repo checkout -- .; exit 2; }
git -C /repo reset -q
bad=0
for p in C01 C02 C03 C04 C05 C06 C07 C08 C09 C10 C11 C12 C13 C14 C15 C16 C17 C18 C19 C20; do
  out=$(./check $p quick 2>&1); rc=$?
  if [ $rc -ne 0 ]; then bad=$((bad+1)); echo "   $B: $p exit=$rc $(echo "$out" | grep -E 'VIOLATION' | head -2)"; v=$(echo "$out" | grep -o "replay=[^ ]*" | head -1 | cut -d= -f2); [ -n "$v" ] && python3 -c "
import json,sys
p=json.load(open('$v')); print('      kind:', p.get('kind')); print('      predicate:', str(p.get('predicate'))[:240]); print('      no_longer_checks:', str(p.get('no_longer_checks'))[:400])"; fi
done
git -C /repo checkout -- .
echo "=== $B: $bad of 20 checks raised an alarm"
