#!/bin/sh
# Runs /repo's pinned test suite (2127 tests) with the verif feature OFF.
# One test (git::tests::changed_files_range_between_branches) assumes git's default branch is
# `master`; this sandbox's global git config says `main`, so the default is pinned here.
cd /repo || exit 2
export GIT_CONFIG_COUNT=1 GIT_CONFIG_KEY_0=init.defaultBranch GIT_CONFIG_VALUE_0=master
export CARGO_NET_OFFLINE=true
cargo nextest run --workspace --no-fail-fast --test-threads 8 --offline "$@" \
  || cargo test --workspace --no-fail-fast --offline
