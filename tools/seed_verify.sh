#!/bin/bash
# Confirms a seeded change in its scratch worktree:
#   compiles, full suite passes, demo fails with the change, demo passes without it.
# usage: seed_verify.sh <worktree> <mN> [feature for the demo build, e.g. verif]     result -> <worktree>/out/<mN>/verify.txt
W=$1; M=$2; O=$W/out/$M; FEAT=${3:+--features $3}
export GIT_CONFIG_COUNT=1 GIT_CONFIG_KEY_0=init.defaultBranch GIT_CONFIG_VALUE_0=master CARGO_NET_OFFLINE=true
cd "$W" || exit 2
git checkout -q -- src
{
  echo "== apply"; git apply "$O/patch.diff" && echo applied-ok
  echo "== suite"; cargo nextest run --workspace --no-fail-fast --test-threads 4 --offline 2>&1 | grep -E "Summary|FAIL" | head -5
  echo "== build (after the suite: the suite rebuilds the binary without the feature)"; cargo build --offline $FEAT 2>&1 | tail -1
  echo "== demo with change"; (if [ -f "$O/demo.sh" ]; then bash "$O/demo.sh" > "$O/verify_with.log" 2>&1; echo "exit=$?"; else echo "no demo.sh"; fi)
  git checkout -q -- src
  echo "== rebuild clean"; cargo build --offline $FEAT 2>&1 | tail -1
  echo "== demo without change"; (if [ -f "$O/demo.sh" ]; then bash "$O/demo.sh" > "$O/verify_without.log" 2>&1; echo "exit=$?"; fi)
} > "$O/verify.txt" 2>&1
git status --short src | head -3 >> "$O/verify.txt"
