#!/bin/bash
# Runs every stored seed against its property's quick check (apply, check, undo) and prints one line each.
cd /verif || exit 2
for d in seeded/*/; do
  s=$(basename $d); [ -f $d/patch.diff ] || continue
  out=$(bash tools/seed_try.sh $s 2>&1)
  if echo "$out" | grep -q "patch does not apply"; then echo "$s NOAPPLY";
  elif echo "$out" | grep -q "exit=1"; then echo "$s CAUGHT $(echo "$out" | grep -c no-failing-input-found | sed 's/^0$//;s/^[1-9].*/(no-failing-input-found)/')";
  else echo "$s MISSED"; fi
done
