#!/usr/bin/env python3
"""debug helper: run sgverif gen + sgmodel for one property and show disagreements"""
import subprocess, sys, os, json
from collections import Counter
prop, tier, seed = sys.argv[1], (sys.argv[2] if len(sys.argv) > 2 else "quick"), (sys.argv[3] if len(sys.argv) > 3 else "1")
out = f"/verif/.build/run/{prop}-dbg"
env = dict(os.environ, SGVERIF_BIN="/verif/.build/target/debug/sloc-guard", SGVERIF_SCRATCH="/verif/.build/scratch/dbg")
subprocess.run(["/verif/.build/target/debug/sgverif", "gen", prop, tier, seed, out], check=True, env=env)
rows = [l.rstrip("\n").split("\t") for l in open(out + "/cases.tsv", encoding="utf-8", errors="replace")]
model = subprocess.run(["/verif/lean/.lake/build/bin/sgmodel"], input=("\n".join(r[0] for r in rows) + "\n").encode(), stdout=subprocess.PIPE).stdout.decode("utf-8", "replace").splitlines()
print(len(rows), "cases;", len(model), "model answers")
bad = 0
tags = Counter()
preds = Counter()
for r, m in zip(rows, model):
    i = r[1]
    tags[r[3]] += 1
    if r[2] != "ok":
        preds[r[2][:110]] += 1
    ok = i == "-" or i == m or (i.endswith(" -") and i[:-2] == m.rsplit(" ", 1)[0])
    if not ok:
        bad += 1
        if bad < 6:
            print("REQ  ", r[0][:400]); print(" impl ", i[:300]); print(" model", m[:300]); print(" tag  ", r[3], "idx", r[4])
print("mismatches", bad)
print("pred failures", sum(preds.values()), preds.most_common(12))
print("tags", len(tags), tags.most_common(25))
