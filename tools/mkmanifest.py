#!/usr/bin/env python3
"""Writes /verif/MANIFEST.json from tools/propdefs.py (kept valid at all times)."""
import json
import os
import sys

ROOT = os.path.join(os.path.dirname(os.path.abspath(__file__)), "..")
sys.path.insert(0, os.path.dirname(os.path.abspath(__file__)))
import propdefs  # noqa: E402

ALL = [json.loads(l)["id"] for l in open(os.path.join(ROOT, "properties.jsonl")) if l.strip()]

checks = []
for pid in ALL:
    if pid not in propdefs.PROPS:
        continue
    s = propdefs.PROPS[pid]
    checks.append({
        "property_id": pid,
        "quick_cmd": f"./check {pid} quick",
        "thorough_cmd": f"./check {pid} thorough",
        "evidence_file": f"evidence/{pid}.json",
        "replay_cmd_template": f"./check {pid} --replay {{path}}",
        "engine": "lean4-proof+correspondence",
        "level_claimed": {
            "category": "proof",
            "text": s["level_text"],
            "design_ref": f"DESIGN.md section 6, {pid}",
        },
        "level_note": s["level_note"],
        "technique": s["technique"],
    })

not_app = [{"property_id": pid, "reason": propdefs.NOT_CLAIMED.get(pid, "machinery for this property is not built yet (work in progress; see DESIGN.md section 6 for the planned model and theorems)")}
           for pid in ALL if pid not in propdefs.PROPS]

manifest = {
    "version": 1,
    "setup_cmd": "./check --setup",
    "hooks": {
        "guard": "cargo feature `verif` of /repo (off by default)",
        "enable": "the harness crate /verif/harness depends on /repo with features = [\"verif\"]; its bin target `sloc-guard` includes /repo/src/main.rs so the real CLI is built with the hooks too",
        "baseline_off_cmd": "cd /repo && cargo nextest run --workspace --no-fail-fast --test-threads 8 --offline || cargo test --workspace --no-fail-fast --offline",
        "source_commits": propdefs.HOOK_COMMITS,
        "add_only": True,
    },
    "engines": [
        {"name": "lean4-proof+correspondence", "path": "lean/ harness/ check tools/",
         "serves_properties": [c["property_id"] for c in checks],
         "kind_free_text": "Lean 4 model + property theorems (lake build, #print axioms audit, leanchecker in thorough), translator tools/extract.py regenerating Generated/*.lean from /repo on every run, Rust differential harness calling the real code in-process and the real binary, compiled Lean driver `sgmodel` answering the same request lines"},
    ],
    "checks": checks,
    "not_applicable": not_app,
    "notes": "Every check rebuilds the harness against /repo's working tree (cargo feature verif) and re-elaborates the property's theorem module; see DESIGN.md. Known findings live in known_findings.json.",
}
with open(os.path.join(ROOT, "MANIFEST.json"), "w") as h:
    json.dump(manifest, h, indent=1)
    h.write("\n")
print(f"MANIFEST.json: {len(checks)} checks, {len(not_app)} not claimed")
