#!/bin/bash
# Applies one seeded change to /repo, runs the property's quick check, undoes the change.
# usage: seed_try.sh <seed dir name, e.g. C05-m1> [property to check, default: prefix of the name]
S=$1; P=${2:-${S%%-*}}
cd /verif || exit 2
git -C /repo status --short | grep -q . && { echo "/repo not clean"; exit 2; }
git -C /repo apply /verif/seeded/$S/patch.diff || { echo "patch does not apply"; exit 2; }
out=$(./check $P quick 2>&1); rc=$?
git -C /repo checkout -- .
echo "=== $S checked by $P: exit=$rc"
echo "$out" | grep -E "VIOLATION|KNOWN|quick:" | head -6
v=$(echo "$out" | grep -o "replay=[^ ]*" | head -1 | cut -d= -f2)
[ -n "$v" ] && python3 - "$v" <<'PY'
import json,sys
p=json.load(open(sys.argv[1]))
print("   kind:", p.get("kind")); print("   predicate:", str(p.get("predicate"))[:300]); print("   no_longer_checks:", str(p.get("no_longer_checks"))[:300])
PY
