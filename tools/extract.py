#!/usr/bin/env python3
"""Translator: regenerates lean/SlocModel/Generated/*.lean from /repo's *current* sources.

Deliberately dumb (regular expressions + bracket matching).  If the source no longer has the
expected shape the script exits non-zero and the check reports the obligation
"regenerate Generated/" as undischarged.  Files are rewritten only when their content changes,
so unchanged sources do not trigger Lean rebuilds.
"""
import os
import re
import sys

REPO = os.environ.get("SG_REPO", "/repo")
OUT = os.path.join(os.path.dirname(os.path.abspath(__file__)), "..", "lean", "SlocModel", "Generated")


def src(rel):
    with open(os.path.join(REPO, rel), encoding="utf-8") as h:
        return h.read()


def die(msg):
    print(f"extract.py: {msg}", file=sys.stderr)
    sys.exit(1)


def const(rel, name, kind):
    """value of `const NAME: T = <literal>;` in file rel"""
    text = src(rel)
    m = re.search(r"const\s+" + re.escape(name) + r"\s*:\s*[^=]+=\s*([^;]+);", text)
    if not m:
        die(f"constant {name} not found in {rel}")
    v = m.group(1).strip()
    if kind == "nat":
        v = v.replace("_", "")
        if not re.fullmatch(r"\d+", v):
            die(f"constant {name} in {rel} is not a natural literal: {v}")
        return v
    if kind == "int":
        v = v.replace("_", "")
        if not re.fullmatch(r"-?\d+", v):
            die(f"constant {name} in {rel} is not an integer literal: {v}")
        return f"({v})" if v.startswith("-") else v
    if kind == "str":
        m2 = re.fullmatch(r'"((?:[^"\\]|\\.)*)"', v)
        if not m2:
            die(f"constant {name} in {rel} is not a string literal: {v}")
        return chars(unescape(m2.group(1)))
    if kind == "f64bits":
        import struct
        try:
            f = float(v.replace("_", ""))
        except ValueError:
            die(f"constant {name} in {rel} is not a float literal: {v}")
        return str(struct.unpack("<Q", struct.pack("<d", f))[0])
    die(f"unknown kind {kind}")


def unescape(s):
    out = []
    i = 0
    while i < len(s):
        c = s[i]
        if c == "\\" and i + 1 < len(s):
            n = s[i + 1]
            out.append({"n": "\n", "t": "\t", "r": "\r", "0": "\0", "\\": "\\", '"': '"', "'": "'"}.get(n, n))
            i += 2
        else:
            out.append(c)
            i += 1
    return "".join(out)


def chars(s):
    """Lean `List Char` literal (explicit characters so that `decide` reduces in the kernel)"""
    def one(c):
        if c == "'":
            return "'\\''"
        if c == "\\":
            return "'\\\\'"
        if c == "\n":
            return "'\\n'"
        if c == "\t":
            return "'\\t'"
        if c == "\r":
            return "'\\r'"
        if ord(c) < 32 or ord(c) > 126:
            return f"(Char.ofNat {ord(c)})"
        return f"'{c}'"
    return "[" + ", ".join(one(c) for c in s) + "]"


CONSTS = [
    # lean name, type, file, rust name, kind
    ("exitSuccess", "Int", "src/lib.rs", "EXIT_SUCCESS", "int"),
    ("exitThreshold", "Int", "src/lib.rs", "EXIT_THRESHOLD_EXCEEDED", "int"),
    ("exitConfig", "Int", "src/lib.rs", "EXIT_CONFIG_ERROR", "int"),
    ("maxExtendsDepth", "Nat", "src/config/extends.rs", "MAX_EXTENDS_DEPTH", "nat"),
    ("cacheTtlSecs", "Nat", "src/config/remote.rs", "CACHE_TTL_SECS", "nat"),
    ("lockTimeoutMs", "Nat", "src/state.rs", "DEFAULT_LOCK_TIMEOUT_MS", "nat"),
    ("lockPollMs", "Nat", "src/state.rs", "LOCK_POLL_INTERVAL_MS", "nat"),
    ("secondsPerMinute", "Nat", "src/stats/duration.rs", "SECONDS_PER_MINUTE", "nat"),
    ("secondsPerHour", "Nat", "src/stats/duration.rs", "SECONDS_PER_HOUR", "nat"),
    ("secondsPerDay", "Nat", "src/stats/duration.rs", "SECONDS_PER_DAY", "nat"),
    ("secondsPerWeek", "Nat", "src/stats/duration.rs", "SECONDS_PER_WEEK", "nat"),
    ("trendSecondsPerDay", "Nat", "src/stats/trend.rs", "SECONDS_PER_DAY", "nat"),
    ("historyVersion", "Nat", "src/stats/trend.rs", "HISTORY_VERSION", "nat"),
    ("defaultMinCodeDelta", "Nat", "src/stats/trend.rs", "DEFAULT_MIN_CODE_DELTA", "nat"),
    ("defaultStructWarnBits", "Nat", "src/checker/structure/mod.rs", "DEFAULT_WARN_THRESHOLD", "f64bits"),
    ("configVersion", "List Char", "src/config/model.rs", "CONFIG_VERSION", "str"),
    ("defaultMaxLines", "Nat", "src/config/model.rs", "DEFAULT_MAX_LINES", "nat"),
    ("unlimited", "Int", "src/config/model.rs", "UNLIMITED", "int"),
    ("resetMarker", "List Char", "src/config/merge.rs", "RESET_MARKER", "str"),
    ("baselineVersion", "Nat", "src/baseline/mod.rs", "BASELINE_VERSION", "nat"),
    ("cacheVersion", "Nat", "src/cache/mod.rs", "CACHE_VERSION", "nat"),
    ("ignoreFileDirective", "List Char", "src/counter/sloc.rs", "IGNORE_FILE_DIRECTIVE", "str"),
    ("ignoreNextPrefix", "List Char", "src/counter/sloc.rs", "IGNORE_NEXT_PREFIX", "str"),
    ("ignoreStartDirective", "List Char", "src/counter/sloc.rs", "IGNORE_START_DIRECTIVE", "str"),
    ("ignoreEndDirective", "List Char", "src/counter/sloc.rs", "IGNORE_END_DIRECTIVE", "str"),
    ("directiveScanLines", "Nat", "src/counter/sloc.rs", "DIRECTIVE_SCAN_LINES", "nat"),
]


def gen_consts():
    lines = ["/-! GENERATED by tools/extract.py from /repo — do not edit. -/", "namespace SlocModel.Generated", ""]
    for lean, ty, rel, rust, kind in CONSTS:
        lines.append(f"/-- `{rust}` in `{rel}` -/")
        lines.append(f"def {lean} : {ty} := {const(rel, rust, kind)}")
    lines += ["", "end SlocModel.Generated", ""]
    return "\n".join(lines)


def rust_string_literals(s):
    return [unescape(m) for m in re.findall(r'"((?:[^"\\]|\\.)*)"', s)]


def matching(text, start, open_c, close_c):
    """index just past the bracket matching text[start] (which must be open_c); skips string literals"""
    depth = 0
    i = start
    while i < len(text):
        c = text[i]
        if c == '"':
            i += 1
            while text[i] != '"':
                i += 2 if text[i] == "\\" else 1
        elif c == open_c:
            depth += 1
        elif c == close_c:
            depth -= 1
            if depth == 0:
                return i + 1
        i += 1
    die("unbalanced brackets")


def split_top(s):
    """split on top-level commas"""
    parts, depth, cur, i = [], 0, [], 0
    while i < len(s):
        c = s[i]
        if c == '"':
            j = i + 1
            while s[j] != '"':
                j += 2 if s[j] == "\\" else 1
            cur.append(s[i:j + 1])
            i = j + 1
            continue
        if c in "([{":
            depth += 1
        elif c in ")]}":
            depth -= 1
        if c == "," and depth == 0:
            parts.append("".join(cur).strip())
            cur = []
        else:
            cur.append(c)
        i += 1
    if "".join(cur).strip():
        parts.append("".join(cur).strip())
    return parts


def parse_multi_item(item):
    """one element of the `vec![...]` of multi-line comment styles -> dict"""
    item = item.strip()
    if re.fullmatch(r"RustRawString::new\(\)\.into\(\)", item):
        # impl From<RustRawString> for MultiLineComment
        text = src("src/language/registry.rs")
        m = re.search(r"impl From<RustRawString> for MultiLineComment.*?start:\s*\"((?:[^\"\\]|\\.)*)\"\.to_string\(\),\s*end:\s*\"((?:[^\"\\]|\\.)*)\"\.to_string\(\)", text, flags=re.S)
        if not m:
            die("From<RustRawString> placeholder markers not found")
        return dict(start=unescape(m.group(1)), stop=unescape(m.group(2)), nesting=False, line_start=False, kind="rustRawString")
    if re.fullmatch(r"LuaLongBracket::comment\(\)\.into\(\)", item):
        text = src("src/language/registry.rs")
        m = re.search(r"impl From<LuaLongBracket> for MultiLineComment.*?if lua\.is_comment \{\s*\"((?:[^\"\\]|\\.)*)\"\s*\}.*?end:\s*\"((?:[^\"\\]|\\.)*)\"\.to_string\(\)", text, flags=re.S)
        if not m:
            die("From<LuaLongBracket> placeholder markers not found")
        return dict(start=unescape(m.group(1)), stop=unescape(m.group(2)), nesting=False, line_start=False, kind="luaLongBracket")
    m = re.match(r'MultiLineComment::new\(\s*"((?:[^"\\]|\\.)*)"\s*,\s*"((?:[^"\\]|\\.)*)"\s*\)(.*)$', item, flags=re.S)
    if m:
        chain = re.sub(r"\s+", "", m.group(3))
        d = dict(start=unescape(m.group(1)), stop=unescape(m.group(2)), nesting=False, line_start=False, kind="static")
        while chain:
            if chain.startswith(".with_nesting()"):
                d["nesting"] = True
                chain = chain[len(".with_nesting()"):]
            elif chain.startswith(".at_line_start()"):
                d["line_start"] = True
                chain = chain[len(".at_line_start()"):]
            else:
                die(f"unknown MultiLineComment builder call: {chain}")
        return d
    m = re.fullmatch(r'\(\s*"((?:[^"\\]|\\.)*)"\s*,\s*"((?:[^"\\]|\\.)*)"\s*\)', item, flags=re.S)
    if m:
        return dict(start=unescape(m.group(1)), stop=unescape(m.group(2)), nesting=False, line_start=False, kind="static")
    die(f"unrecognised multi-line comment item: {item[:80]}")


def vec_items(expr):
    expr = expr.strip()
    if not expr.startswith("vec!["):
        die(f"expected vec![..], got {expr[:60]}")
    inner = expr[len("vec!["):matching(expr, len("vec!"), "[", "]") - 1]
    return split_top(inner)


_LIB = None


def library_tables():
    """Tables read from the library itself (`sgverif dump-tables`, built from /repo's current tree by
    the check just before this script runs): independent of how the source text spells them.
    `None` when the dump is not available (then the source-text parsers below are used)."""
    global _LIB
    if _LIB is not None:
        return _LIB or None
    _LIB = False
    exe = os.environ.get("SGVERIF_DUMP")
    if exe and os.path.exists(exe):
        import json
        import subprocess
        try:
            p = subprocess.run([exe, "dump-tables"], stdout=subprocess.PIPE, stderr=subprocess.PIPE, timeout=120)
            if p.returncode == 0:
                _LIB = json.loads(p.stdout.decode("utf-8"))
            else:
                print("extract.py: dump-tables failed: " + p.stderr.decode("utf-8", "replace")[-300:], file=sys.stderr)
        except Exception as e:  # noqa
            print(f"extract.py: dump-tables not usable: {e}", file=sys.stderr)
    return _LIB or None


SOURCES = {}


def gen_languages_table():
    lib = library_tables()
    if lib:
        SOURCES["languages"] = "library (LanguageRegistry::default())"
        return lib["languages"]
    SOURCES["languages"] = "source text (src/language/registry.rs)"
    return gen_languages_table_from_text()


def gen_languages_table_from_text():
    """`impl Default for LanguageRegistry`: the built-in language table."""
    text = src("src/language/registry.rs")
    m = re.search(r"impl\s+Default\s+for\s+LanguageRegistry", text)
    if not m:
        die("impl Default for LanguageRegistry not found")
    body_start = text.index("{", m.end())
    body = text[body_start:matching(text, body_start, "{", "}")]
    langs = []
    n_register = len(re.findall(r"registry\.register\(", body))
    for m in re.finditer(r"registry\.register\(\s*Language::new\(", body):
        start = m.end() - 1
        args = body[start + 1:matching(body, start, "(", ")") - 1]
        parts = split_top(args)
        if len(parts) != 3:
            die(f"Language::new with {len(parts)} arguments: {args[:80]}")
        name = rust_string_literals(parts[0])[0]
        exts = [rust_string_literals(x)[0] for x in vec_items(parts[1])]
        syn = parts[2].strip()
        m2 = re.match(r"CommentSyntax::(new|with_multi_line)\(", syn)
        if not m2:
            die(f"unrecognised comment syntax constructor: {syn[:60]}")
        inner = syn[m2.end():matching(syn, m2.end() - 1, "(", ")") - 1]
        sparts = split_top(inner)
        if len(sparts) != 2:
            die(f"CommentSyntax constructor with {len(sparts)} arguments")
        singles = [rust_string_literals(x)[0] for x in vec_items(sparts[0])]
        multis = [parse_multi_item(x) for x in vec_items(sparts[1])]
        langs.append(dict(name=name, exts=exts, singles=singles, multis=multis))
    if not langs or len(langs) != n_register:
        die(f"parsed {len(langs)} of {n_register} registry.register calls")
    return langs


def gen_languages():
    langs = gen_languages_table()
    out = ["import SlocModel.Counter.Syntax",
           "/-! GENERATED by tools/extract.py from /repo/src/language/registry.rs — do not edit. -/",
           "namespace SlocModel.Generated", "open SlocModel.Counter", ""]
    out.append("def builtins : List Language := [")
    rows = []
    for l in langs:
        ms = ",\n        ".join(
            "{ start := %s, stop := %s, nesting := %s, atLineStart := %s, kind := .%s }" % (
                chars(m["start"]), chars(m["stop"]), str(m["nesting"]).lower(), str(m["line_start"]).lower(), m["kind"])
            for m in l["multis"])
        rows.append("  { name := %s,\n    exts := [%s],\n    syn := {\n      single := [%s],\n      multi := [%s] } }" % (
            chars(l["name"]), ", ".join(chars(e) for e in l["exts"]), ", ".join(chars(x) for x in l["singles"]), ms))
    out.append(",\n".join(rows))
    out.append("]")
    out += ["", "end SlocModel.Generated", ""]
    return "\n".join(out)


def f64bits(x):
    import struct
    return str(struct.unpack("<Q", struct.pack("<d", float(x)))[0])


def lean_opt(v, f=str):
    return "none" if v is None else "some (%s)" % f(v)


def gen_presets():
    """src/config/presets.rs: every built-in preset as a `Gate.Cfg` (pattern-compiles bits are
    assumed true here; the harness compiles the real patterns and runs `config validate`)"""
    import tomllib
    lib = library_tables()
    if lib:
        SOURCES["presets"] = "library (config::presets::load_preset)"
        parsed = [(n, t) for n, t in lib["presets"]]
    else:
        SOURCES["presets"] = "source text (src/config/presets.rs)"
        text = src("src/config/presets.rs")
        names = re.findall(r'"([a-z0-9-]+)"\s*=>\s*(PRESET_[A-Z_]+)', text)
        if not names:
            die("no preset table found in src/config/presets.rs")
        parsed = []
        for name, const_name in names:
            mm = re.search(r"const\s+" + const_name + r'\s*:\s*&str\s*=\s*r#"(.*?)"#;', text, re.S)
            if not mm:
                die(f"preset constant {const_name} not found")
            try:
                parsed.append((name, tomllib.loads(mm.group(1))))
            except Exception as e:  # noqa
                die(f"preset {name} is not valid TOML: {e}")
    vtext = src("src/config/validation.rs")
    m = re.search(r"VALID_REPORT_SECTIONS[^=]*=\s*&\[([^\]]*)\]", vtext)
    m2 = re.search(r"VALID_BREAKDOWN_BY[^=]*=\s*&\[([^\]]*)\]", vtext)
    if not m or not m2:
        die("VALID_REPORT_SECTIONS / VALID_BREAKDOWN_BY not found in src/config/validation.rs")
    sections = re.findall(r'"([^"]*)"', m.group(1))
    breakdowns = re.findall(r'"([^"]*)"', m2.group(1))
    mtext = src("src/config/model.rs")
    md = re.search(r"fn default_warn_threshold\(\)\s*->\s*f64\s*\{\s*([0-9.]+)\s*\}", mtext)
    if not md:
        die("default_warn_threshold not found in src/config/model.rs")
    default_thr = md.group(1)
    default_max = int(const("src/config/model.rs", "DEFAULT_MAX_LINES", "nat"))
    rows = []
    for name, t in parsed:
        if t.get("version") not in (None, "2"):
            die(f"preset {name} has version {t.get('version')}")
        c = t.get("content", {})
        st = t.get("structure", {})
        rep = t.get("stats", {}).get("report", {})

        def crule(r):
            return ("{ patternOk := true, maxLines := %d, warnThreshold := %s, warnAt := %s, expires := %s }" % (
                r["max_lines"], lean_opt(r.get("warn_threshold"), f64bits), lean_opt(r.get("warn_at")),
                lean_opt(r.get("expires"), chars)))

        def sib(x):
            if "group" in x:
                return ".group [%s]" % ", ".join(chars(p) for p in x["group"])
            req = x.get("require", [])
            req = [req] if isinstance(req, str) else req
            return ".directed %s [%s]" % (str(x.get("match", "") == "").lower(), ", ".join(chars(p) for p in req))

        def has(d, keys):
            return str(any(d.get(k) for k in keys)).lower()

        def srule(r):
            return ("{ scopeOk := true, maxFiles := %s, maxDirs := %s, maxDepth := %s, warnThreshold := %s, "
                    "warnFilesThreshold := %s, warnDirsThreshold := %s, warnFilesAt := %s, warnDirsAt := %s, "
                    "hasAllow := %s, hasDeny := %s, patternsOk := true, expires := %s, siblings := [%s] }" % (
                        lean_opt(r.get("max_files")), lean_opt(r.get("max_dirs")), lean_opt(r.get("max_depth")),
                        lean_opt(r.get("warn_threshold"), f64bits), lean_opt(r.get("warn_files_threshold"), f64bits),
                        lean_opt(r.get("warn_dirs_threshold"), f64bits), lean_opt(r.get("warn_files_at")),
                        lean_opt(r.get("warn_dirs_at")),
                        has(r, ["allow_files", "allow_dirs", "allow_extensions", "allow_patterns"]),
                        has(r, ["deny_files", "deny_dirs", "deny_extensions", "deny_patterns"]),
                        lean_opt(r.get("expires"), chars), ", ".join(sib(x) for x in r.get("siblings", []))))

        cfg = ("{ warnThreshold := %s, maxLines := %d, warnAt := %s,\n      rules := [%s],\n"
               "      scannerExcludeOk := true, contentExcludeOk := true, reportExcludeOk := %s, breakdownByOk := %s,\n"
               "      trendSince := %s, sMaxFiles := %s, sMaxDirs := %s, sMaxDepth := %s,\n"
               "      sWarnThreshold := %s, sWarnFilesThreshold := %s, sWarnDirsThreshold := %s,\n"
               "      sWarnFilesAt := %s, sWarnDirsAt := %s, sHasAllow := %s, sHasDeny := %s, sPatternsOk := true,\n"
               "      srules := [%s] }" % (
                   f64bits(c.get("warn_threshold", default_thr)), c.get("max_lines", default_max), lean_opt(c.get("warn_at")),
                   ",\n        ".join(crule(r) for r in c.get("rules", [])),
                   str(all(x.lower() in sections for x in rep.get("exclude", []))).lower(),
                   str(rep.get("breakdown_by") is None or rep["breakdown_by"].lower() in breakdowns).lower(),
                   lean_opt(rep.get("trend_since"), chars),
                   lean_opt(st.get("max_files")), lean_opt(st.get("max_dirs")), lean_opt(st.get("max_depth")),
                   lean_opt(st.get("warn_threshold"), f64bits), lean_opt(st.get("warn_files_threshold"), f64bits),
                   lean_opt(st.get("warn_dirs_threshold"), f64bits), lean_opt(st.get("warn_files_at")),
                   lean_opt(st.get("warn_dirs_at")),
                   has(st, ["allow_files", "allow_dirs", "allow_extensions"]),
                   has(st, ["deny_files", "deny_dirs", "deny_extensions", "deny_patterns"]),
                   ",\n        ".join(srule(r) for r in st.get("rules", []))))
        rows.append("  (%s,\n    %s)" % (chars(name), cfg))
    out = ["import SlocModel.Gate",
           "/-! GENERATED by tools/extract.py from /repo/src/config/presets.rs — do not edit. -/",
           "namespace SlocModel.Generated", "open SlocModel.Gate", "",
           "def presets : List (List Char × Cfg) := [", ",\n".join(rows), "]", "", "end SlocModel.Generated", ""]
    return "\n".join(out)


def write_if_changed(path, content):
    try:
        if open(path, encoding="utf-8").read() == content:
            return False
    except OSError:
        pass
    os.makedirs(os.path.dirname(path), exist_ok=True)
    with open(path, "w", encoding="utf-8") as h:
        h.write(content)
    return True


def main():
    changed = write_if_changed(os.path.join(OUT, "Consts.lean"), gen_consts())
    print(f"Generated/Consts.lean {'rewritten' if changed else 'unchanged'}")
    changed = write_if_changed(os.path.join(OUT, "Languages.lean"), gen_languages())
    print(f"Generated/Languages.lean {'rewritten' if changed else 'unchanged'}")
    changed = write_if_changed(os.path.join(OUT, "Presets.lean"), gen_presets())
    print(f"Generated/Presets.lean {'rewritten' if changed else 'unchanged'}")
    print("tables from: " + "; ".join(f"{k}: {v}" for k, v in sorted(SOURCES.items())))


if __name__ == "__main__":
    sys.path.insert(0, os.path.dirname(os.path.abspath(__file__)))
    main()
