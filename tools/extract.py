#!/usr/bin/env python3
"""Translator: regenerates lean/SlocModel/Generated/*.lean from /repo's *current* sources.

Deliberately dumb (regular expressions + bracket matching).  If the source no longer has the
expected shape the script exits non-zero and the check reports the obligation
"regenerate Generated/" as undischarged.  Files are rewritten only when their content changes,
so unchanged sources do not trigger Lean rebuilds.
"""
import os
import re
import sys

REPO = os.environ.get("SG_REPO", "/repo")
OUT = os.path.join(os.path.dirname(os.path.abspath(__file__)), "..", "lean", "SlocModel", "Generated")


def src(rel):
    with open(os.path.join(REPO, rel), encoding="utf-8") as h:
        return h.read()


def die(msg):
    print(f"extract.py: {msg}", file=sys.stderr)
    sys.exit(1)


def const(rel, name, kind):
    """value of `const NAME: T = <literal>;` in file rel"""
    text = src(rel)
    m = re.search(r"const\s+" + re.escape(name) + r"\s*:\s*[^=]+=\s*([^;]+);", text)
    if not m:
        die(f"constant {name} not found in {rel}")
    v = m.group(1).strip()
    if kind == "nat":
        v = v.replace("_", "")
        if not re.fullmatch(r"\d+", v):
            die(f"constant {name} in {rel} is not a natural literal: {v}")
        return v
    if kind == "int":
        v = v.replace("_", "")
        if not re.fullmatch(r"-?\d+", v):
            die(f"constant {name} in {rel} is not an integer literal: {v}")
        return f"({v})" if v.startswith("-") else v
    if kind == "str":
        m2 = re.fullmatch(r'"((?:[^"\\]|\\.)*)"', v)
        if not m2:
            die(f"constant {name} in {rel} is not a string literal: {v}")
        return chars(unescape(m2.group(1)))
    if kind == "f64bits":
        import struct
        try:
            f = float(v.replace("_", ""))
        except ValueError:
            die(f"constant {name} in {rel} is not a float literal: {v}")
        return str(struct.unpack("<Q", struct.pack("<d", f))[0])
    die(f"unknown kind {kind}")


def unescape(s):
    out = []
    i = 0
    while i < len(s):
        c = s[i]
        if c == "\\" and i + 1 < len(s):
            n = s[i + 1]
            out.append({"n": "\n", "t": "\t", "r": "\r", "0": "\0", "\\": "\\", '"': '"', "'": "'"}.get(n, n))
            i += 2
        else:
            out.append(c)
            i += 1
    return "".join(out)


def chars(s):
    """Lean `List Char` literal (explicit characters so that `decide` reduces in the kernel)"""
    def one(c):
        if c == "'":
            return "'\\''"
        if c == "\\":
            return "'\\\\'"
        if c == "\n":
            return "'\\n'"
        if c == "\t":
            return "'\\t'"
        if c == "\r":
            return "'\\r'"
        if ord(c) < 32 or ord(c) > 126:
            return f"(Char.ofNat {ord(c)})"
        return f"'{c}'"
    return "[" + ", ".join(one(c) for c in s) + "]"


CONSTS = [
    # lean name, type, file, rust name, kind
    ("exitSuccess", "Int", "src/lib.rs", "EXIT_SUCCESS", "int"),
    ("exitThreshold", "Int", "src/lib.rs", "EXIT_THRESHOLD_EXCEEDED", "int"),
    ("exitConfig", "Int", "src/lib.rs", "EXIT_CONFIG_ERROR", "int"),
    ("maxExtendsDepth", "Nat", "src/config/extends.rs", "MAX_EXTENDS_DEPTH", "nat"),
    ("cacheTtlSecs", "Nat", "src/config/remote.rs", "CACHE_TTL_SECS", "nat"),
    ("lockTimeoutMs", "Nat", "src/state.rs", "DEFAULT_LOCK_TIMEOUT_MS", "nat"),
    ("lockPollMs", "Nat", "src/state.rs", "LOCK_POLL_INTERVAL_MS", "nat"),
    ("secondsPerMinute", "Nat", "src/stats/duration.rs", "SECONDS_PER_MINUTE", "nat"),
    ("secondsPerHour", "Nat", "src/stats/duration.rs", "SECONDS_PER_HOUR", "nat"),
    ("secondsPerDay", "Nat", "src/stats/duration.rs", "SECONDS_PER_DAY", "nat"),
    ("secondsPerWeek", "Nat", "src/stats/duration.rs", "SECONDS_PER_WEEK", "nat"),
    ("trendSecondsPerDay", "Nat", "src/stats/trend.rs", "SECONDS_PER_DAY", "nat"),
    ("historyVersion", "Nat", "src/stats/trend.rs", "HISTORY_VERSION", "nat"),
    ("defaultMinCodeDelta", "Nat", "src/stats/trend.rs", "DEFAULT_MIN_CODE_DELTA", "nat"),
    ("defaultStructWarnBits", "Nat", "src/checker/structure/mod.rs", "DEFAULT_WARN_THRESHOLD", "f64bits"),
    ("configVersion", "List Char", "src/config/model.rs", "CONFIG_VERSION", "str"),
    ("defaultMaxLines", "Nat", "src/config/model.rs", "DEFAULT_MAX_LINES", "nat"),
    ("unlimited", "Int", "src/config/model.rs", "UNLIMITED", "int"),
    ("resetMarker", "List Char", "src/config/merge.rs", "RESET_MARKER", "str"),
    ("baselineVersion", "Nat", "src/baseline/mod.rs", "BASELINE_VERSION", "nat"),
    ("cacheVersion", "Nat", "src/cache/mod.rs", "CACHE_VERSION", "nat"),
    ("ignoreFileDirective", "List Char", "src/counter/sloc.rs", "IGNORE_FILE_DIRECTIVE", "str"),
    ("ignoreNextPrefix", "List Char", "src/counter/sloc.rs", "IGNORE_NEXT_PREFIX", "str"),
    ("ignoreStartDirective", "List Char", "src/counter/sloc.rs", "IGNORE_START_DIRECTIVE", "str"),
    ("ignoreEndDirective", "List Char", "src/counter/sloc.rs", "IGNORE_END_DIRECTIVE", "str"),
    ("directiveScanLines", "Nat", "src/counter/sloc.rs", "DIRECTIVE_SCAN_LINES", "nat"),
]


def gen_consts():
    lines = ["/-! GENERATED by tools/extract.py from /repo — do not edit. -/", "namespace SlocModel.Generated", ""]
    for lean, ty, rel, rust, kind in CONSTS:
        lines.append(f"/-- `{rust}` in `{rel}` -/")
        lines.append(f"def {lean} : {ty} := {const(rel, rust, kind)}")
    lines += ["", "end SlocModel.Generated", ""]
    return "\n".join(lines)


def rust_string_literals(s):
    return [unescape(m) for m in re.findall(r'"((?:[^"\\]|\\.)*)"', s)]


def matching(text, start, open_c, close_c):
    """index just past the bracket matching text[start] (which must be open_c); skips string literals"""
    depth = 0
    i = start
    while i < len(text):
        c = text[i]
        if c == '"':
            i += 1
            while text[i] != '"':
                i += 2 if text[i] == "\\" else 1
        elif c == open_c:
            depth += 1
        elif c == close_c:
            depth -= 1
            if depth == 0:
                return i + 1
        i += 1
    die("unbalanced brackets")


def split_top(s):
    """split on top-level commas"""
    parts, depth, cur, i = [], 0, [], 0
    while i < len(s):
        c = s[i]
        if c == '"':
            j = i + 1
            while s[j] != '"':
                j += 2 if s[j] == "\\" else 1
            cur.append(s[i:j + 1])
            i = j + 1
            continue
        if c in "([{":
            depth += 1
        elif c in ")]}":
            depth -= 1
        if c == "," and depth == 0:
            parts.append("".join(cur).strip())
            cur = []
        else:
            cur.append(c)
        i += 1
    if "".join(cur).strip():
        parts.append("".join(cur).strip())
    return parts


def parse_multi_item(item):
    """one element of the `vec![...]` of multi-line comment styles -> dict"""
    item = item.strip()
    if re.fullmatch(r"RustRawString::new\(\)\.into\(\)", item):
        # impl From<RustRawString> for MultiLineComment
        text = src("src/language/registry.rs")
        m = re.search(r"impl From<RustRawString> for MultiLineComment.*?start:\s*\"((?:[^\"\\]|\\.)*)\"\.to_string\(\),\s*end:\s*\"((?:[^\"\\]|\\.)*)\"\.to_string\(\)", text, flags=re.S)
        if not m:
            die("From<RustRawString> placeholder markers not found")
        return dict(start=unescape(m.group(1)), stop=unescape(m.group(2)), nesting=False, line_start=False, kind="rustRawString")
    if re.fullmatch(r"LuaLongBracket::comment\(\)\.into\(\)", item):
        text = src("src/language/registry.rs")
        m = re.search(r"impl From<LuaLongBracket> for MultiLineComment.*?if lua\.is_comment \{\s*\"((?:[^\"\\]|\\.)*)\"\s*\}.*?end:\s*\"((?:[^\"\\]|\\.)*)\"\.to_string\(\)", text, flags=re.S)
        if not m:
            die("From<LuaLongBracket> placeholder markers not found")
        return dict(start=unescape(m.group(1)), stop=unescape(m.group(2)), nesting=False, line_start=False, kind="luaLongBracket")
    m = re.match(r'MultiLineComment::new\(\s*"((?:[^"\\]|\\.)*)"\s*,\s*"((?:[^"\\]|\\.)*)"\s*\)(.*)$', item, flags=re.S)
    if m:
        chain = re.sub(r"\s+", "", m.group(3))
        d = dict(start=unescape(m.group(1)), stop=unescape(m.group(2)), nesting=False, line_start=False, kind="static")
        while chain:
            if chain.startswith(".with_nesting()"):
                d["nesting"] = True
                chain = chain[len(".with_nesting()"):]
            elif chain.startswith(".at_line_start()"):
                d["line_start"] = True
                chain = chain[len(".at_line_start()"):]
            else:
                die(f"unknown MultiLineComment builder call: {chain}")
        return d
    m = re.fullmatch(r'\(\s*"((?:[^"\\]|\\.)*)"\s*,\s*"((?:[^"\\]|\\.)*)"\s*\)', item, flags=re.S)
    if m:
        return dict(start=unescape(m.group(1)), stop=unescape(m.group(2)), nesting=False, line_start=False, kind="static")
    die(f"unrecognised multi-line comment item: {item[:80]}")


def vec_items(expr):
    expr = expr.strip()
    if not expr.startswith("vec!["):
        die(f"expected vec![..], got {expr[:60]}")
    inner = expr[len("vec!["):matching(expr, len("vec!"), "[", "]") - 1]
    return split_top(inner)


def gen_languages_table():
    """`impl Default for LanguageRegistry`: the built-in language table."""
    text = src("src/language/registry.rs")
    m = re.search(r"impl\s+Default\s+for\s+LanguageRegistry", text)
    if not m:
        die("impl Default for LanguageRegistry not found")
    body_start = text.index("{", m.end())
    body = text[body_start:matching(text, body_start, "{", "}")]
    langs = []
    n_register = len(re.findall(r"registry\.register\(", body))
    for m in re.finditer(r"registry\.register\(\s*Language::new\(", body):
        start = m.end() - 1
        args = body[start + 1:matching(body, start, "(", ")") - 1]
        parts = split_top(args)
        if len(parts) != 3:
            die(f"Language::new with {len(parts)} arguments: {args[:80]}")
        name = rust_string_literals(parts[0])[0]
        exts = [rust_string_literals(x)[0] for x in vec_items(parts[1])]
        syn = parts[2].strip()
        m2 = re.match(r"CommentSyntax::(new|with_multi_line)\(", syn)
        if not m2:
            die(f"unrecognised comment syntax constructor: {syn[:60]}")
        inner = syn[m2.end():matching(syn, m2.end() - 1, "(", ")") - 1]
        sparts = split_top(inner)
        if len(sparts) != 2:
            die(f"CommentSyntax constructor with {len(sparts)} arguments")
        singles = [rust_string_literals(x)[0] for x in vec_items(sparts[0])]
        multis = [parse_multi_item(x) for x in vec_items(sparts[1])]
        langs.append(dict(name=name, exts=exts, singles=singles, multis=multis))
    if not langs or len(langs) != n_register:
        die(f"parsed {len(langs)} of {n_register} registry.register calls")
    return langs


def gen_languages():
    langs = gen_languages_table()
    out = ["import SlocModel.Counter.Syntax",
           "/-! GENERATED by tools/extract.py from /repo/src/language/registry.rs — do not edit. -/",
           "namespace SlocModel.Generated", "open SlocModel.Counter", ""]
    out.append("def builtins : List Language := [")
    rows = []
    for l in langs:
        ms = ",\n        ".join(
            "{ start := %s, stop := %s, nesting := %s, atLineStart := %s, kind := .%s }" % (
                chars(m["start"]), chars(m["stop"]), str(m["nesting"]).lower(), str(m["line_start"]).lower(), m["kind"])
            for m in l["multis"])
        rows.append("  { name := %s,\n    exts := [%s],\n    syn := {\n      single := [%s],\n      multi := [%s] } }" % (
            chars(l["name"]), ", ".join(chars(e) for e in l["exts"]), ", ".join(chars(x) for x in l["singles"]), ms))
    out.append(",\n".join(rows))
    out.append("]")
    out += ["", "end SlocModel.Generated", ""]
    return "\n".join(out)


def write_if_changed(path, content):
    try:
        if open(path, encoding="utf-8").read() == content:
            return False
    except OSError:
        pass
    os.makedirs(os.path.dirname(path), exist_ok=True)
    with open(path, "w", encoding="utf-8") as h:
        h.write(content)
    return True


def main():
    changed = write_if_changed(os.path.join(OUT, "Consts.lean"), gen_consts())
    print(f"Generated/Consts.lean {'rewritten' if changed else 'unchanged'}")
    changed = write_if_changed(os.path.join(OUT, "Languages.lean"), gen_languages())
    print(f"Generated/Languages.lean {'rewritten' if changed else 'unchanged'}")


if __name__ == "__main__":
    sys.path.insert(0, os.path.dirname(os.path.abspath(__file__)))
    main()
